"""Scenario programs, schedule exploration of the real engine, and export of recorded traces
into the batches the TLA+ trace/observer specs read."""
from __future__ import annotations

import random

from harness.drivers import engine as en
from harness.programs.compile import cfg_for_tla

DEV = {"match_done_waiters": False, "wait_index_one_based": True, "no_handlers_unvalidated": False}

EMPTY_STEP = {"queue": [], "ip": [], "coll": {}, "waiters": []}


def reducer_batch(items):
    """items: list of (prog, trace).  One TraceReducer trace per recorded run log."""
    traces = []
    for prog, tr in items:
        cfg = cfg_for_tla(prog)
        ticks = []
        run_init = None
        first = True
        pending_first = {}
        # run_init records are logged right after start(); ticks of that run may precede them in the log
        inits = {r["run"]: r["state"] for r in tr if r["e"] == "run_init"}
        init_now = {r["run"]: r.get("now", 0) for r in tr if r["e"] == "run_init"}
        seen_runs = set()
        for r in tr:
            if r["e"] != "tick" or "state" not in r:
                continue
            fo = r["run"] not in seen_runs
            seen_runs.add(r["run"])
            ticks.append({"tick": r["tick"], "now": r["now"], "post": r["state"], "pubs": r["pubs"],
                          "first_of_run": fo, "run_init": inits.get(r["run"], r["state"]),
                          "run_now": init_now.get(r["run"], r["now"])})
        init = {"running": False, "steps": {s: dict(EMPTY_STEP) for s in cfg["order"]}}
        traces.append({"cfg": cfg, "init": init, "ticks": ticks})
    return {"dev": DEV, "traces": traces}


def random_walk(prog, rng: random.Random, max_steps=60, ext_menu=(), p_cancel=0.03, start_uid="s0",
                weights=None, batch=False, sleep_ms=0):
    """One seeded implementation-driven walk: at every quiescence point choose one enabled driver action."""
    s = en.EngineSystem(prog)
    sched = []
    try:
        s.start(start_uid)
        for _ in range(max_steps):
            if s.outcome is not None:
                break
            acts = s.enabled(ext_menu=ext_menu, allow_cancel=p_cancel > 0, batch=batch, sleep_ms=sleep_ms)
            if not acts:
                break
            ws = []
            for a in acts:
                if a[0] == "cancel":
                    ws.append(p_cancel)
                elif a[0] == "advance":
                    ws.append(1.0 if len(acts) == 1 else (0.04 if a[2] == "timeout" else 0.6))
                elif a[0] == "send":
                    ws.append(0.5)
                else:
                    ws.append(1.0)
            if sum(ws) <= 0:
                break
            c = rng.choices(acts, weights=ws)[0]
            sched.append(c)
            s.apply(c)
        return s.trace, sched
    finally:
        s.close()


def explore(prog, ext_menu=(), max_depth=14, max_paths=300, rng=None, allow_cancel=False, max_ext=2, drain=True,
            timeout_advance=True, batch=False, sleep_ms=0):
    """Bounded DFS over driver schedules of the real engine, pruned on (projected runner state, open gates,
    inputs used, virtual time).  Every path is executed from scratch on a fresh system; returns
    [(trace, schedule)]."""
    rng = rng or random.Random(0)
    seen = set()
    out = []
    stack = [[]]
    while stack and len(out) < max_paths:
        prefix = stack.pop()
        s = en.EngineSystem(prog)
        sched = []
        try:
            s.start("s0")
            ok = True
            for c in prefix:
                if c not in s.enabled(ext_menu=ext_menu, allow_cancel=allow_cancel, max_ext=max_ext, batch=batch, sleep_ms=sleep_ms):
                    ok = False
                    break
                s.apply(c)
                sched.append(c)
            while ok and len(sched) < max_depth and s.outcome is None:
                k = s.state_key()
                if k in seen and len(sched) >= len(prefix) and sched:
                    break
                seen.add(k)
                acts = s.enabled(ext_menu=ext_menu, allow_cancel=allow_cancel, max_ext=max_ext, batch=batch, sleep_ms=sleep_ms)
                if not timeout_advance:
                    acts = [a for a in acts if not (a[0] == "advance" and a[2] == "timeout")]
                if not acts:
                    break
                rng.shuffle(acts)
                for a in acts[1:]:
                    stack.append(sched + [a])
                s.apply(acts[0])
                sched.append(acts[0])
            if drain:
                s.drain()
            out.append((s.trace, sched))
        finally:
            s.close()
    return out


def run_to_end(s, max_rounds=12):
    """Deterministic continuation: let every body finish, then fire the next non-timeout timer, repeat."""
    for _ in range(max_rounds):
        s.drain()
        if s.outcome is not None:
            return
        acts = [a for a in s.enabled(allow_cancel=False) if a[0] == "advance" and a[2] != "timeout"]
        if not acts:
            return
        s.apply(acts[0])


def replay_then_resume(prog, sched, ext_menu=(), timeout_probe=False, resumes=1, reserialize=False):
    """Execute `sched` on a fresh system, serialise the context through JSON, resume it with Context.from_dict on the
    same workflow object and drive the resumed run to its end.  Returns the whole trace (runs 1 and 2)."""
    import json as _json
    s = en.EngineSystem(prog)
    try:
        s.start("s0")
        for c in sched:
            s.apply(c)
        for _k in range(max(1, resumes)):     # resumes > 1: serialised again right after a resume, before anything else happens
            try:
                early = getattr(s, "early_snap", None) if _k > 0 else None
                s.snap_at_start = resumes > 1
                s.early_snap = None
                # the second snapshot is the one taken right after run(ctx=...) returned, before the resumed loop executed
                # anything (a server that checkpoints what it has just loaded)
                snap = early if early is not None else s.snapshot()
                s.log({"e": "snapshot", "ok": True, "is_running": bool(snap.get("is_running"))})
                if reserialize:
                    # the context is loaded and serialised again WITHOUT being run in between (a store migration, a copy):
                    # what the first load could not restore yet (waiter requirements) must not get lost on the way
                    from workflows.context import Context as _Ctx
                    snap = _json.loads(_json.dumps(_Ctx.from_dict(s.wf, snap).to_dict()))
                    s.log({"e": "reserialized", "ok": True})
            except Exception as ex:  # noqa: BLE001
                s.log({"e": "snapshot", "ok": False, "err": type(ex).__name__ + ":" + str(ex)[:120], "is_running": False})
                return s.trace
            try:
                s.resume_from(snap)
                s.log({"e": "resumed", "ok": True})
            except Exception as ex:  # noqa: BLE001
                s.log({"e": "resumed", "ok": False, "err": type(ex).__name__ + ":" + str(ex)[:120]})
                return s.trace
        if timeout_probe and prog.get("timeout") is not None and s.outcome is None and s.rig.open_gates():
            # leave the resumed bodies running and let the workflow timeout elapse: the resumed run must time out too
            t_res = s.now_ms()
            s.apply(["advance", t_res + int(prog["timeout"] * 1000) + 1000, "x"])
            s.log({"e": "resume_timeout_probe", "timed_out": (s.outcome or {"kind": ""})["kind"] == "timedout",
                   "outcome": (s.outcome or {"kind": "live"})["kind"]})
            return s.trace
        for (ty, target) in ext_menu:
            if s.outcome is None:
                s.drain()
                s.apply(["send", ty.rstrip("1"), "y%d" % s.ext_sent, target or "*", 1 if ty.endswith("1") else 0])
        run_to_end(s)
        s.log({"e": "resume_end", "outcome": (s.outcome or {"kind": "live"})["kind"],
               "detail": (s.outcome or {"detail": ""})["detail"]})
        return s.trace
    finally:
        s.close()


def replay_then_reuse(prog, sched, ext_menu=()):
    """Execute `sched`, let the run end, then start a follow-up run on the SAME context object (workflow.run(ctx=ctx,
    start_event=...)) and drive it to its end.  Returns the whole trace, or None when the first run did not end by itself."""
    s = en.EngineSystem(prog)
    try:
        s.start("s0")
        for c in sched:
            s.apply(c)
        if s.outcome is None or s.outcome["kind"] not in ("result", "failed"):
            return None
        try:
            s.reuse("s1")
            s.log({"e": "reused", "ok": True})
        except Exception as ex:  # noqa: BLE001
            s.log({"e": "reused", "ok": False, "err": type(ex).__name__ + ":" + str(ex)[:120]})
            return s.trace
        run_to_end(s)
        return s.trace
    finally:
        s.close()


def _summary(s):
    """What C12/C13 compare: outcome, state-store contents, completed step inputs."""
    store = s.store_dict()
    data = store.get("state_data", store) if isinstance(store, dict) else {}
    inner = data.get("_data", data) if isinstance(data, dict) else {}
    keys = sorted(k for k in (inner or {}) if str(k).startswith("k_"))
    done = sorted({"%s/%s" % (r["step"], r["uid"]) for r in s.trace
                   if r["e"] == "step_end" and not r["how"].startswith("raise") and r["how"] != "cancelled"})
    return {"kind": (s.outcome or {"kind": "live"})["kind"], "detail": (s.outcome or {"detail": ""})["detail"],
            "store": keys, "completed": done}


def snapshot_cases(prog, sched, ext_menu=()):
    """For every prefix of `sched`: (reference) continue uninterrupted to the end; (resumed) serialise the context
    through JSON at that point, resume it in a fresh workflow object and continue to the end.  One record per prefix."""
    import json as _json
    from workflows.context.context_types import SerializedContext
    from workflows.context.serializers import JsonSerializer
    from workflows.runtime.types.internal_state import BrokerState
    cases = []
    for k in range(0, len(sched) + 1):
        # reference
        s = en.EngineSystem(prog, observe_c11=False)
        try:
            s.start("s0")
            for c in sched[:k]:
                s.apply(c)
            if s.outcome is not None:
                s.close()
                break
            inprog = [{"step": key[0], "uid": key[1], "retry": key[2]} for key in s.rig.open_gates()]
            pending_retry = any(tk.__class__.__name__ == "TickAddEvent" for r_ in en._RUNNERS.values()
                                for (_a, _s, tk) in r_.scheduled_wakeups)
            # cause feature: a RUNNING invocation carries a recovery history (the serialised form keeps none for running work)
            inprog_recovered = any(bool(ip.recovery_counts) for r_ in en._RUNNERS.values()
                                   for w in r_.state.workers.values() for ip in w.in_progress)
            n1 = {}
            f1 = {}
            for r in s.trace:
                if r["e"] == "step_start":
                    n1["%s/%s" % (r["step"], r["uid"])] = n1.get("%s/%s" % (r["step"], r["uid"]), 0) + 1
                if r["e"] == "step_end" and r["how"].startswith("raise"):
                    f1["%s/%s" % (r["step"], r["uid"])] = f1.get("%s/%s" % (r["step"], r["uid"]), 0) + 1
            try:
                snap = _json.loads(_json.dumps(s.handler.ctx.to_dict()))
                snap_err = ""
            except Exception as ex:  # noqa: BLE001
                snap, snap_err = None, type(ex).__name__ + ":" + str(ex)[:100]
            # both continuations first let the running bodies finish (in the resumed run: the re-executed ones, which
            # re-arm their waiters), then get the remaining external inputs of the schedule, then run to the end
            rest = [c for c in sched[k:] if c[0] == "send"]
            if rest:
                s.drain()
            for c in rest:
                s.apply(c)
            run_to_end(s)
            ref = _summary(s)
        finally:
            s.close()
        rec = {"e": "case", "k": k, "ref": ref, "inprog": inprog, "snap_err": snap_err, "run": 1, "seq": k, "t": 0,
               "pending_retry": bool(pending_retry), "inprog_recovered": bool(inprog_recovered)}
        if snap is None:
            rec.update(res={"kind": "snapshot_failed", "detail": "", "store": [], "completed": []}, stable=True, post=[],
                       resume_err="", fails=[])
            cases.append(rec)
            continue
        # resumed, in a fresh workflow object
        s2 = en.EngineSystem(prog, observe_c11=False)
        try:
            ser = JsonSerializer()
            # stability of the serialised form: Deser(d1) vs Deser(Ser(Deser(d1)))
            try:
                bs1 = BrokerState.from_serialized(SerializedContext.from_dict_auto(snap), s2.wf, ser)
                d2 = _json.loads(_json.dumps(bs1.to_serialized(ser).model_dump(mode="python")))
                bs2 = BrokerState.from_serialized(SerializedContext.from_dict_auto(d2), s2.wf, ser)
                rec["stable"] = en.p_state(bs1) == en.p_state(bs2)
            except Exception as ex:  # noqa: BLE001
                rec["stable"] = False
                rec["snap_err"] = "stability:" + type(ex).__name__
            try:
                s2.run_no = 1
                s2.resume_from(snap)
                rec["resume_err"] = ""
            except Exception as ex:  # noqa: BLE001
                rec["resume_err"] = type(ex).__name__ + ":" + str(ex)[:100]
            if not rec["resume_err"]:
                # the remaining external inputs of the schedule (as in the reference), then run to the end
                if rest:
                    s2.drain()
                for c in rest:
                    s2.apply(c)
                run_to_end(s2)
            rec["res"] = _summary(s2)
            post = {}
            fails = dict(f1)
            for r in s2.trace:
                if r["e"] == "step_start":
                    post.setdefault("%s/%s" % (r["step"], r["uid"]), []).append(r["retry"])
                if r["e"] == "step_end" and r["how"].startswith("raise"):
                    fails["%s/%s" % (r["step"], r["uid"])] = fails.get("%s/%s" % (r["step"], r["uid"]), 0) + 1
            rec["post"] = [{"key": key, "first_retry": v[0]} for key, v in sorted(post.items())]
            rec["fails"] = [{"key": key, "n": v, "step": key.split("/")[0]} for key, v in sorted(fails.items())]
        finally:
            s2.close()
        # a second pause on the resumed run: resume, let one or two bodies finish, serialise again (ckpt = the run that was
        # merely checkpointed goes on to its end; res2 = the second snapshot resumed in yet another workflow object)
        rec.update(two=False, ckpt=rec["res"], res2=rec["res"], pending_retry2=False, inprog_recovered2=False, snap2_err="")
        same = all(rec["res"][f] == ref[f] for f in ("kind", "detail", "store"))
        if not rec["resume_err"] and same:
            s3 = en.EngineSystem(prog, observe_c11=False)
            snap2 = None
            try:
                s3.run_no = 1
                s3.resume_from(snap)
                if rest:
                    s3.drain()
                for c in rest:
                    s3.apply(c)
                # a checkpoint after each of the next few completed bodies (to_dict has no effect on the run); the last
                # one taken while the run is still live is the one resumed below
                for _m in range(2 + k % 3):
                    g = s3.rig.open_gates()
                    if s3.outcome is not None or not g:
                        break
                    s3.apply(["release", g[0][0], g[0][1], g[0][2], g[0][3]])
                    if s3.outcome is not None:
                        break
                    pr2 = any(tk.__class__.__name__ == "TickAddEvent" for r_ in en._RUNNERS.values()
                              for (_a, _s, tk) in r_.scheduled_wakeups)
                    ir2 = any(bool(ip.recovery_counts) for r_ in en._RUNNERS.values()
                              for w in r_.state.workers.values() for ip in w.in_progress)
                    try:
                        snap2 = _json.loads(_json.dumps(s3.handler.ctx.to_dict()))
                        rec["pending_retry2"], rec["inprog_recovered2"] = bool(pr2), bool(ir2)
                        rec["two"] = True
                    except Exception as ex:  # noqa: BLE001
                        rec["snap2_err"] = type(ex).__name__ + ":" + str(ex)[:100]
                        rec["two"] = True
                        break
                if rec["two"]:
                    run_to_end(s3)
                    rec["ckpt"] = _summary(s3)
            finally:
                s3.close()
            if snap2 is not None:
                s4 = en.EngineSystem(prog, observe_c11=False)
                try:
                    s4.run_no = 1
                    s4.resume_from(snap2)
                    run_to_end(s4)
                    rec["res2"] = _summary(s4)
                except Exception as ex:  # noqa: BLE001
                    rec["snap2_err"] = "resume:" + type(ex).__name__ + ":" + str(ex)[:100]
                finally:
                    s4.close()
        cases.append(rec)
    return cases
