"""Driver for the stored event log (append_event / subscribe_events / query_events) of the real
MemoryWorkflowStore and SqliteWorkflowStore under the virtual loop  (C16, reused by C21).

Commands (environment actions of EventLog.tla), all records {"op", "u", "n"}:
  append  u=writer   n=1 terminal / 0 ordinary       -> task: store.append_event(run, envelope)
  start   u=sub      n=after_sequence                -> gen = store.subscribe_events(run, after)
  pull    u=sub                                      -> task: gen.__anext__()
  reconnect u=sub                                    -> drop the stream (cancel / aclose), subscribe again
                                                        with after = last sequence the consumer saw
  tick                                               -> virtual time += poll interval (its own batch)
A batch of commands is issued synchronously at a quiescence point, then the loop runs until quiescent
and the observation is projected (same projection for replay and for recording).
"""
from __future__ import annotations

import asyncio
import importlib
import itertools
import os
import signal

from harness.env import stubimport, vloop

stubimport.install()

POLL = 1.0
WATCHDOG_S = 30.0
LIVELOCKS = {}          # backend -> number of executions that had to be cut (checks stop exploring a backend after 2)


class Livelock(KeyboardInterrupt):
    """Raised by the watchdog inside a task step that does not return (KeyboardInterrupt subclass: asyncio
    re-raises it out of the loop instead of storing it in the task)."""


def _on_alarm(signum, frame):
    raise Livelock("task step did not return within %ss" % WATCHDOG_S)

BACKENDS = ("memory", "sqlite", "sqlite1", "poll")
_counter = itertools.count()


_MODS = None


def mods():
    global _MODS
    if _MODS is not None:
        return _MODS
    mem = importlib.import_module("llama_agents.server._store.memory_workflow_store")
    sq = importlib.import_module("llama_agents.server._store.sqlite.sqlite_workflow_store")
    ab = importlib.import_module("llama_agents.server._store.abstract_workflow_store")
    env = importlib.import_module("llama_agents.client.protocol.serializable_events")
    _MODS = (mem, sq, ab, env)
    return _MODS


def fast_db_dir(workdir, name="db"):
    """Directory for SQLite files: `<workdir>/<name>`, a symlink to a private tmpfs directory when /dev/shm is
    usable (a commit costs ~30 ms of fsync on this sandbox's disk, ~0.2 ms on tmpfs; durability across power
    loss is not a subject of these properties).  Returns (path, cleanup)."""
    import shutil
    import tempfile
    link = os.path.join(str(workdir), name)
    target = None
    try:
        if os.path.isdir("/dev/shm") and os.access("/dev/shm", os.W_OK):
            target = tempfile.mkdtemp(prefix="verif-db-", dir="/dev/shm")
            os.symlink(target, link)
    except OSError:
        if target:
            shutil.rmtree(target, ignore_errors=True)
        target = None
    if target is None:
        os.makedirs(link, exist_ok=True)

    def cleanup():
        if target:
            try:
                os.unlink(link)
            except OSError:
                pass
            shutil.rmtree(target, ignore_errors=True)
    return link, cleanup


class _Handoff:
    """append_event alternates between two store objects; everything else is the third one's."""

    def __init__(self, objs):
        self._w = objs[:2]
        self._r = objs[2]
        self._n = 0

    async def append_event(self, run_id, event):
        w = self._w[self._n % 2]
        self._n += 1
        return await w.append_event(run_id, event)

    def __getattr__(self, name):
        return getattr(self._r, name)


class Stores:
    """Creates stores; the sqlite file (and store object) is shared by all schedules of a check run,
    every schedule uses a fresh run_id (events of other runs are invisible to it).  For per-call-connection
    stores the harness keeps one idle read connection open so that SQLite does not checkpoint and delete
    the WAL file every time the store closes its connection."""

    def __init__(self, workdir):
        self.dir, self._cleanup = fast_db_dir(workdir, "db_events")
        self._sq = {}
        self._keep = []

    def get(self, backend):
        mem, sq, ab, env = mods()
        if backend in ("memory", "poll"):
            st = mem.MemoryWorkflowStore()
            st.poll_interval = POLL
            return st
        if backend == "sqlite_handoff":
            # three store OBJECTS on one database file (three processes / replicas sharing it): appends alternate between
            # two of them, reads and subscriptions go through the third
            if backend not in self._sq:
                import sqlite3
                path = os.path.join(self.dir, "events_handoff_%d.db" % next(_counter))
                objs = [sq.SqliteWorkflowStore(path, poll_interval=POLL) for _ in range(3)]
                k = sqlite3.connect(path)
                k.execute("SELECT COUNT(*) FROM events").fetchall()
                self._keep.append(k)
                self._sq[backend] = _Handoff(objs)
            return self._sq[backend]
        if backend not in self._sq:
            import sqlite3
            single = backend == "sqlite1"
            path = os.path.join(self.dir, "events_%s_%d.db" % (backend, next(_counter)))
            self._sq[backend] = sq.SqliteWorkflowStore(path, poll_interval=POLL, single_connection=single)
            if not single:
                k = sqlite3.connect(path)
                k.execute("SELECT COUNT(*) FROM events").fetchall()
                self._keep.append(k)
        st = self._sq[backend]
        if backend == "sqlite1":
            try:
                st._persistent_conn.execute("SELECT 1")
            except Exception:                    # the code under test closed its own connection: fresh store
                del self._sq[backend]
                return self.get(backend)
        return st

    def close(self):
        for k in self._keep:
            try:
                k.close()
            except Exception:
                pass
        for st in self._sq.values():
            c = getattr(st, "_persistent_conn", None)
            if c is not None:
                try:
                    c.close()
                except Exception:
                    pass
        self._cleanup()


def envelope(eid, term, flavour=0):
    """flavour 0: type == StopEvent; 1: a StopEvent subclass (name in `types`)."""
    _, _, _, env = mods()
    if term:
        if flavour % 2 == 0:
            return env.EventEnvelopeWithMetadata(value={"n": eid}, qualified_name=None, type="StopEvent", types=None)
        return env.EventEnvelopeWithMetadata(value={"n": eid}, qualified_name="x.Failed", type="WorkflowFailedEvent",
                                             types=["StopEvent"])
    return env.EventEnvelopeWithMetadata(value={"n": eid}, qualified_name=None, type="Ev", types=["Base"])


class System:
    def __init__(self, stores: Stores, backend, subs):
        self.backend = backend
        self.store = stores.get(backend)
        self.run = "run%d" % next(_counter)
        self.loop = vloop.new_loop()
        self.subs = {u: {"pc": "none", "after0": -1, "after": -1, "gen": None, "task": None, "delivered": []}
                     for u in subs}
        self.neid = 0
        self.errors = []
        self.dead = False

    # ------------------------------------------------------------------ commands
    def _subscribe(self, after):
        if self.backend == "poll":
            _, _, ab, _ = mods()
            return ab.AbstractWorkflowStore.subscribe_events(self.store, self.run, after_sequence=after)
        return self.store.subscribe_events(self.run, after_sequence=after)

    def _on_pull_done(self, u, gen, task):
        s = self.subs[u]
        if s["gen"] is not gen:
            return                       # a stream the consumer already dropped
        s["task"] = None
        if task.cancelled():
            return
        exc = task.exception()
        if isinstance(exc, StopAsyncIteration):
            s["pc"] = "done"
        elif exc is not None:
            s["pc"] = "error"
            self.errors.append("%s: %r" % (u, exc))
        else:
            ev = task.result()
            _, _, ab, _ = mods()
            s["delivered"].append([int(ev.sequence), int(ev.event.value.get("n", -1)),
                                   1 if ab.AbstractWorkflowStore._is_terminal_event(ev) else 0])
            s["pc"] = "idle"

    def enabled(self, c):
        op, u = c["op"], c["u"]
        if op in ("append", "tick"):
            return True
        s = self.subs[u]
        if op == "start":
            return s["pc"] == "none"
        if op == "pull":
            return s["pc"] in ("init", "idle") and s["task"] is None
        if op == "reconnect":
            # the stream is over once the consumer has seen the terminal event
            return s["pc"] in ("idle", "waiting") and not (s["delivered"] and s["delivered"][-1][2] == 1)
        return False

    def _issue(self, c):
        op, u, n = c["op"], c["u"], c["n"]
        if op == "append":
            eid = self.neid
            self.neid += 1
            t = self.loop.create_task(self.store.append_event(self.run, envelope(eid, bool(n), eid)))
            t.add_done_callback(lambda t: self.errors.append("append: %r" % t.exception())
                                if (not t.cancelled() and t.exception()) else None)
        elif op == "start":
            s = self.subs[u]
            s.update(pc="init", after0=int(n), after=int(n), gen=self._subscribe(int(n)), delivered=[])
        elif op == "pull":
            s = self.subs[u]
            gen = s["gen"]
            task = self.loop.create_task(gen.__anext__())
            s["task"] = task
            s["pc"] = "waiting"          # until the callback says otherwise
            task.add_done_callback(lambda t, u=u, gen=gen: self._on_pull_done(u, gen, t))
        elif op == "reconnect":
            s = self.subs[u]
            old, task = s["gen"], s["task"]
            last = s["delivered"][-1][0] if s["delivered"] else s["after0"]
            s["gen"] = self._subscribe(last)
            s["after"] = last
            s["pc"] = "init"
            s["task"] = None
            if task is not None:
                task.cancel()            # the generator is closed by the CancelledError passing through it
            else:
                self.loop.create_task(old.aclose())
        else:
            raise ValueError(op)

    def _quiesce(self):
        """Run the loop until quiescent.  Code that never becomes quiescent (a livelock: endless rescheduling, or a
        task step that never returns -- caught by a wall-clock watchdog) is recorded as an error (judged by the
        observer, clause no_error) instead of hanging the check.  The watchdog never fires on terminating code."""
        if self.dead:
            return
        old = signal.signal(signal.SIGALRM, _on_alarm)
        signal.setitimer(signal.ITIMER_REAL, WATCHDOG_S)
        try:
            self.loop.quiesce(max_rounds=3000)
        except (RuntimeError, Livelock) as e:
            signal.setitimer(signal.ITIMER_REAL, 0)
            self.dead = True
            self.errors.append("livelock: %s" % (e or type(e).__name__))
            LIVELOCKS[self.backend] = LIVELOCKS.get(self.backend, 0) + 1
            for t in asyncio.all_tasks(self.loop):
                t.cancel()
            try:
                self.loop.quiesce(max_rounds=3000)
            except RuntimeError:
                pass
        finally:
            signal.setitimer(signal.ITIMER_REAL, 0)
            signal.signal(signal.SIGALRM, old)

    def apply(self, cmds):
        """Issue the enabled commands of the batch, quiesce, project.  Returns (issued, post)."""
        issued = []
        for c in cmds:
            if self.dead:
                break
            if c["op"] == "tick":
                self._quiesce()
                if not self.dead:
                    try:
                        self.loop.advance(POLL)
                    except RuntimeError as e:
                        self.dead = True
                        self.errors.append("livelock: %s" % e)
                issued.append(c)
                continue
            if c["op"] == "reconnect":
                self._quiesce()          # acts synchronously on the consumer side: drain the loop first
            if self.enabled(c):
                self._issue(c)
                issued.append(c)
        self._quiesce()
        return issued, self.project()

    def query_log(self):
        if self.dead:
            return []
        t = self.loop.create_task(self.store.query_events(self.run))
        self._quiesce()
        if not t.done():
            return []
        _, _, ab, _ = mods()
        if t.exception() is not None:          # recorded, judged by the observer (clause no_error)
            self.errors.append("query_events: %r" % t.exception())
            return []
        return [[int(e.sequence), int(e.event.value.get("n", -1)),
                 1 if ab.AbstractWorkflowStore._is_terminal_event(e) else 0] for e in t.result()]

    def project(self):
        return {"log": self.query_log(),
                "subs": {u: {"pc": s["pc"], "after0": s["after0"], "delivered": [list(d) for d in s["delivered"]]}
                         for u, s in self.subs.items()},
                "errors": len(self.errors)}

    def close(self):
        for s in self.subs.values():
            if s["task"] is not None and not s["task"].done():
                s["task"].cancel()
        vloop.close_loop(self.loop)


def run_schedule(stores, backend, subs, schedule):
    """schedule = list of batches; returns the trace: list of {cmds (issued), post}."""
    s = System(stores, backend, subs)
    try:
        tr = []
        for batch in schedule:
            issued, post = s.apply(batch)
            if issued:
                tr.append({"cmds": issued, "post": post})
        return tr, list(s.errors)
    finally:
        s.close()


def cmd(op, u="-", n=0):
    return {"op": op, "u": u, "n": int(n)}
