"""Driver for the real state stores (C19, and the store factory used by C20).

  InMemoryStateStore  workflows.context.state_store
  SqliteStateStore    llama_agents.server._store.sqlite.sqlite_state_store, created the way the server
                      does it: SqliteWorkflowStore(db_path).create_state_store(run_id, state_type) on a
                      database file migrated by the real migrations

with DictState and with a typed parent/child pydantic pair (PState / CState, defined here so that the
JSON serializer can re-import them by qualified name).

An operation is the record enumerated by specs/stores/StateStore.tla:
  {"op": set|get|probe|setstate|clear|edit|getstate|mutate|writeback, "path": [...], "val": tree,
   "k": key, "h": handle, "sv": variant}
A value ("tree") is {"t":"s","v":n} | {"t":"m","m":{k: tree}} | {"t":"l","l":[tree]}; results also use
{"t":"ok"} (returned None), {"t":"e"} (raised), {"t":"x"} (key absent), {"t":"p", g, gd, d} (probe).
`apply_ops` is the one projection used for replaying TLC's sequences and for recording.
"""
from __future__ import annotations

import os
import sqlite3
from typing import Any

from pydantic import BaseModel

from harness.env import stubimport, vloop

stubimport.install()


class PState(BaseModel):
    a: Any = 0


class CState(PState):
    b: Any = 0


NDEFAULT = 4        # StateTree.tla: NDefault
OK = {"t": "ok"}
ERR = {"t": "e"}
MISSING = {"t": "x"}
_ABSENT = object()


class _SqliteNoFsync:
    """The sqlite3 module as seen by sqlite_state_store.py, with PRAGMA synchronous=OFF on every new
    connection: the store opens one connection per call and every commit would otherwise wait for the
    disk.  Durability across crashes is not a subject of C19/C20; nothing else changes."""

    def __getattr__(self, name):
        return getattr(sqlite3, name)

    @staticmethod
    def connect(*a, **k):
        conn = sqlite3.connect(*a, **k)
        conn.execute("PRAGMA synchronous=OFF")
        return conn


_MODS = None


def _mods():
    global _MODS
    if _MODS is None:
        import importlib
        ss = importlib.import_module("workflows.context.state_store")
        try:
            sq = importlib.import_module("llama_agents.server._store.sqlite.sqlite_workflow_store")
        except Exception:  # heavy package __init__: bypass it, keep the real submodules
            stubimport.namespace_stub("llama_agents.server",
                                      stubimport.REPO + "/packages/llama-agents-server/src/llama_agents/server")
            sq = importlib.import_module("llama_agents.server._store.sqlite.sqlite_workflow_store")
        st = importlib.import_module("llama_agents.server._store.sqlite.sqlite_state_store")
        st.sqlite3 = _SqliteNoFsync()
        _MODS = (ss, sq)
    return _MODS


# ------------------------------------------------------------------ values
# StateStore.tla JsonScalar: scalar ids that stand for JSON values other than small integers
SPECIAL = {60: None, 61: True, 62: 1.5, 63: "s", 64: False, 65: ""}
_SPECIAL_BACK = {(type(v).__name__, v): k for k, v in SPECIAL.items()}


def enc(v):
    """python value -> tree"""
    if v is None or isinstance(v, (bool, float, str)):
        k = _SPECIAL_BACK.get((type(v).__name__, v))
        return {"t": "s", "v": k} if k is not None else {"t": "u", "v": repr(v)[:60]}
    if isinstance(v, int):
        return {"t": "s", "v": v} if 0 <= v < 2 ** 31 and v not in SPECIAL else {"t": "u", "v": repr(v)}
    if isinstance(v, dict):
        return {"t": "m", "m": {_key(k): enc(x) for k, x in v.items()}}
    if isinstance(v, (list, tuple)):
        return {"t": "l", "l": [enc(x) for x in v]}
    return {"t": "u", "v": repr(v)[:60]}


def _key(k):
    # a non-string key (DictState._data[0]) is shown as "#0": it is not the string key "0"
    return k if isinstance(k, str) else "#" + repr(k)


def dec(t):
    """tree -> fresh python value (never shared between calls)"""
    k = t["t"]
    if k == "s":
        return SPECIAL[t["v"]] if t["v"] in SPECIAL else t["v"]
    if k == "m":
        m = t["m"]
        return {} if isinstance(m, list) else {kk: dec(x) for kk, x in m.items()}
    if k == "l":
        return [dec(x) for x in t["l"]]
    raise ValueError("cannot decode %r" % (t,))


def dump_state(state):
    """Top-level contents of a state object, as its user sees them (mapping keys / declared fields)."""
    if hasattr(state, "items") and hasattr(state, "_data"):
        return {"t": "m", "m": {_key(k): enc(v) for k, v in state.items()}}
    return {"t": "m", "m": {f: enc(getattr(state, f)) for f in type(state).model_fields}}


# ------------------------------------------------------------------ stores
class SqliteEnv:
    """One migrated database file (real migrations) and a factory of per-run state stores."""

    def __init__(self, dirpath, name="state.db"):
        ss, sq = _mods()
        os.makedirs(dirpath, exist_ok=True)
        self.path = os.path.join(str(dirpath), name)
        self.ws = sq.SqliteWorkflowStore(self.path)
        # a second open connection, as in a running server: without it every close of the store's
        # per-call connection checkpoints and deletes the WAL file
        self.keeper = sqlite3.connect(self.path)
        self.keeper.execute("SELECT count(*) FROM workflow_state").fetchall()
        self.n = 0

    def store(self, kind):
        self.n += 1
        return self.ws.create_state_store("run-%d" % self.n, CState if kind == "typed" else None)

    def raw_row(self, store):
        row = self.keeper.execute("SELECT state_json FROM workflow_state WHERE run_id = ?",
                                  (store.run_id,)).fetchone()
        self.keeper.commit()
        return None if row is None else row[0]

    def close(self):
        try:
            self.keeper.close()
        except Exception:
            pass


def memory_store(kind):
    ss, _ = _mods()
    return ss.InMemoryStateStore(CState() if kind == "typed" else ss.DictState())


def make_state(kind_sv, content):
    ss, _ = _mods()
    if kind_sv == "dict":
        return ss.DictState(**content)
    if kind_sv == "child":
        return CState(**content)
    if kind_sv == "parent":
        return PState(**content)
    if kind_sv == "parent0":
        return PState()            # nothing passed: every field unset, at its default
    raise ValueError(kind_sv)


# ------------------------------------------------------------------ operations
async def _get(store, path, *default):
    try:
        return enc(await store.get(".".join(path), *default))
    except Exception:
        return ERR


async def apply_ops(store, kind, ops, ppaths, excs=None):
    """Apply the operations to one fresh store; returns the list of events [{"r","pre","post"}]."""
    handles = {}
    out = []
    for o in ops:
        op = o["op"]
        pre = post = OK
        try:
            if op == "set":
                await store.set(".".join(o["path"]), dec(o["val"]))
                r = OK
            elif op == "get":
                r = await _get(store, o["path"], *([dec(o["val"])] if o["sv"] == "dflt" else []))
            elif op == "probe":
                d = dec(o["val"])
                g = [await _get(store, p) for p in ppaths]
                gd = [await _get(store, p, d) for p in ppaths[:NDEFAULT]]
                r = {"t": "p", "g": g, "gd": gd, "d": dump_state(await store.get_state())}
            elif op == "setstate":
                await store.set_state(make_state(o["sv"], dec(o["val"])))
                r = OK
            elif op == "clear":
                await store.clear()
                r = OK
            elif op == "edit":
                k, v = o["k"], dec(o["val"])
                async with store.edit_state() as s:
                    if kind == "dict":
                        old = s.get(k, _ABSENT)
                        s[k] = v
                    else:
                        old = getattr(s, k)
                        setattr(s, k, v)
                r = MISSING if old is _ABSENT else enc(old)
            elif op == "getstate":
                h = await store.get_state()
                handles[o["h"]] = h
                r = dump_state(h)
            elif op == "mutate":
                h = handles[o["h"]]
                pre = dump_state(await store.get_state())
                try:
                    if kind == "dict":
                        h[o["k"]] = dec(o["val"])
                    else:
                        setattr(h, o["k"], dec(o["val"]))
                    r = OK
                finally:
                    post = dump_state(await store.get_state())
            elif op == "writeback":
                await store.set_state(handles.pop(o["h"]))
                r = OK
            else:
                raise RuntimeError("unknown op " + op)
        except Exception as e:  # the call raised: that is its observable result
            if isinstance(e, RuntimeError) and "unknown op" in str(e):
                raise
            if excs is not None:
                excs[op + ":" + type(e).__name__] = excs.get(op + ":" + type(e).__name__, 0) + 1
            r = ERR
        out.append({"r": r, "pre": pre, "post": post})
    return out


def run_sequences(backend, kind, seqs, ppaths, workdir=None, excs=None):
    """Apply each operation sequence to a fresh store of the given back end; list of event lists."""
    loop = vloop.new_loop()
    env = SqliteEnv(workdir) if backend == "sqlite" else None
    try:
        async def all_():
            res = []
            for ops in seqs:
                store = env.store(kind) if env else memory_store(kind)
                res.append(await apply_ops(store, kind, ops, ppaths, excs))
            return res
        return loop.run_until_complete(all_())
    finally:
        if env:
            env.close()
        vloop.close_loop(loop)


def _worker(args):
    backend, kind, seqs, ppaths, workdir = args
    excs = {}
    return run_sequences(backend, kind, seqs, ppaths, workdir, excs), excs


def run_parallel(backend, kind, seqs, ppaths, workdir, procs=4, chunk=400):
    """Deterministic fan-out over processes (each with its own database file); order preserved."""
    import multiprocessing as mp
    chunk = max(chunk, -(-len(seqs) // max(procs, 1)))
    if len(seqs) <= chunk or procs <= 1:
        excs = {}
        return run_sequences(backend, kind, seqs, ppaths, os.path.join(str(workdir), "w0"), excs), excs
    jobs = [(backend, kind, seqs[i:i + chunk], ppaths, os.path.join(str(workdir), "w%d" % (i // chunk)))
            for i in range(0, len(seqs), chunk)]
    ctx = mp.get_context("fork")
    with ctx.Pool(min(procs, len(jobs))) as pool:
        parts = pool.map(_worker, jobs, chunksize=1)
    out, excs = [], {}
    for r, x in parts:
        out += r
        for k, v in x.items():
            excs[k] = excs.get(k, 0) + v
    return out, excs
