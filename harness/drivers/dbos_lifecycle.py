"""Driver for the DBOS half of C26 / C36.

LockSystem  -- the real SqliteRunLifecycleLock on a SQLite file (table from the repository's own migration), with the
               module's `datetime` replaced by a virtual clock (harness process only).  Commands are the actions of
               specs/dbos/Lifecycle.tla:  ["create"], ["begin_release", r], ["complete_release", r], ["crash", r]
               (the releaser never calls complete_release), ["try_begin_resume", s], ["owner_done", s], ["tick"]
               (the clock advances by one unit; crash_timeout = T units).
DecoSystem  -- the real DBOSIdleReleaseDecorator over EventInterceptorDecorator(TickPersistenceDecorator(stand-in for
               DBOSRuntime)) + SqliteWorkflowStore + the real SqliteRunLifecycleLock, running a small real Workflow
               (start -> InputRequiredEvent; HumanResponseEvent -> next question / StopEvent).
               DBOS itself is not installed: `dbos` is the names-only stub; idle_release.DBOS is replaced by a minimal
               fake of the two calls the module makes (retrieve_workflow_async(...).get_result(), delete_workflow_async),
               and DBOSRuntime by BasicRuntime (its run_workflow ignores the SQLite-typed serialized_state).
               A recording layer logs lock operations, mailbox traffic, loop starts/exits, step bodies and handler writes;
               a gating proxy around the lock lets the driver decide in which order callers continue after a lock
               operation returned (the check-then-send window, a stalled releaser).
"""
from __future__ import annotations

import asyncio
import datetime as _dt
import importlib
import os
import sqlite3

from harness.env import stubimport, vloop

stubimport.install()

UNIT = 50.0          # seconds per model clock tick
_m = {}


class _VirtualDatetime(_dt.datetime):
    _loop = None

    @classmethod
    def now(cls, tz=None):
        return _dt.datetime.fromtimestamp(cls._loop.wall(), tz)


def _import():
    if not _m:
        _m["lc"] = importlib.import_module("llama_agents.dbos.journal.lifecycle")
        _m["ir"] = importlib.import_module("llama_agents.dbos.idle_release")
        _m["lc"].datetime = _VirtualDatetime
        _m["ir"].datetime = _VirtualDatetime
    return _m


def make_db(path):
    if os.path.exists(path):
        os.remove(path)
    sql = open(os.path.join(stubimport.REPO, "packages/llama-agents-dbos/src/llama_agents/dbos/_store/sqlite/"
                            "migrations/0001_init.sql")).read()
    c = sqlite3.connect(path)
    c.executescript(sql)
    c.commit()
    c.close()


def read_row(path, run_id):
    c = sqlite3.connect(path)
    try:
        r = c.execute("SELECT state FROM run_lifecycle WHERE run_id = ?", (run_id,)).fetchone()
    finally:
        c.close()
    return r[0] if r else "none"


# ====================================================================== the lock alone

class LockSystem:
    def __init__(self, db_path, T=2, has_timeout=True, run_id="run1", fresh=True):
        m = _import()
        self.db, self.run_id = db_path, run_id
        if fresh or not os.path.exists(db_path):
            make_db(db_path)
        else:
            c = sqlite3.connect(db_path)
            c.execute("DELETE FROM run_lifecycle")
            c.commit()
            c.close()
        self.loop = vloop.new_loop(start=1000.0, wall_epoch=100000.0)
        _VirtualDatetime._loop = self.loop
        self.lock = m["lc"].SqliteRunLifecycleLock(db_path)
        self.timeout = (T * UNIT) if has_timeout else None
        self.States = m["lc"].RunLifecycleState

    def _call(self, coro):
        t = self.loop.create_task(coro)
        self.loop.quiesce()
        if not t.done():
            raise RuntimeError("lock operation did not finish at quiescence")
        return t.result()

    def apply(self, cmd):
        op = cmd[0]
        pre = read_row(self.db, self.run_id)
        res = "-"
        if op == "create":
            self._call(self.lock.create(self.run_id))
            res = "ok"
        elif op == "begin_release":
            res = "true" if self._call(self.lock.begin_release(self.run_id)) else "false"
        elif op == "complete_release":
            self._call(self.lock.complete_release(self.run_id))
            res = "ok"
        elif op == "try_begin_resume":
            r = self._call(self.lock.try_begin_resume(self.run_id, crash_timeout_seconds=self.timeout))
            res = "none" if r is None else r.value
        elif op == "tick":
            self.loop.advance(UNIT)
        elif op in ("crash", "owner_done"):
            pass                                   # no call on the lock: the process died / the resume finished
        else:
            raise ValueError(op)
        return {"cmd": list(cmd), "res": res, "pre": pre, "row": read_row(self.db, self.run_id)}

    def close(self):
        vloop.close_loop(self.loop)


def run_lock_history(db_path, history, T=2, has_timeout=True, fresh=True):
    s = LockSystem(db_path, T=T, has_timeout=has_timeout, fresh=fresh)
    try:
        return [s.apply(c) for c in history]
    finally:
        s.close()


# ====================================================================== the decorator stack

class _GatedLock:
    """The real lock; after an operation has returned, the caller is held until the driver opens its gate
    (only for callers named in `hold`)."""

    def __init__(self, sysm, real):
        self.sysm, self.real = sysm, real

    async def _after(self, op, res):
        who = self.sysm.current_actor()
        self.sysm.log({"a": op, "who": who, "res": res, "row": read_row(self.sysm.db, self.sysm.run_id)})
        gate = "%s:%s" % (who, op)
        if gate in self.sysm.hold:
            self.sysm.hold.discard(gate)               # one-shot: only the first such operation is held
            fut = self.sysm.loop.create_future()
            self.sysm.gates[gate] = fut
            await fut
            self.sysm.gates.pop(gate, None)

    async def create(self, run_id):
        await self.real.create(run_id)
        await self._after("create", "ok")

    async def begin_release(self, run_id):
        r = await self.real.begin_release(run_id)
        await self._after("begin", "true" if r else "false")
        return r

    async def complete_release(self, run_id):
        await self.real.complete_release(run_id)
        await self._after("complete", "ok")

    async def try_begin_resume(self, run_id, crash_timeout_seconds=None):
        r = await self.real.try_begin_resume(run_id, crash_timeout_seconds=crash_timeout_seconds)
        await self._after("check", "none" if r is None else r.value)
        return r


class DecoSystem:
    def __init__(self, db_path, idle_timeout=10.0, n_events=2, create_row=True, hold=(), send_yields=0, nudge=False):
        m = _import()
        from llama_agents.server._runtime.event_interceptor import EventInterceptorDecorator
        from llama_agents.server._runtime.persistence_runtime import TickPersistenceDecorator
        from llama_agents.server._store.abstract_workflow_store import HandlerQuery, PersistentHandler
        from llama_agents.server._store.sqlite.sqlite_workflow_store import SqliteWorkflowStore
        from workflows import Context, Workflow, step
        from workflows.events import HumanResponseEvent, InputRequiredEvent, StartEvent, StopEvent
        from workflows.plugins.basic import BasicRuntime
        from workflows.runtime.runtime_decorators import BaseInternalRunAdapterDecorator, BaseRuntimeDecorator
        from workflows.runtime.types.plugin import WaitResultTick
        from workflows.runtime.types.ticks import TickAddEvent, TickIdleRelease

        self.ir, self.lc = m["ir"], m["lc"]
        self.db = db_path
        self.idle_timeout = idle_timeout
        self.n_events = n_events
        self.hold = set(hold)
        self.send_yields = int(send_yields)
        self.gates = {}
        self.events = []
        self.actors = {}            # asyncio task -> actor name
        self.live_loops = 0
        self.max_live = 0
        self.senders = {}
        self.answers = 0
        self.HandlerQuery, self.TickAddEvent, self.HumanResponseEvent = HandlerQuery, TickAddEvent, HumanResponseEvent
        make_db(db_path)
        self.loop = vloop.new_loop(start=1000.0, wall_epoch=100000.0)
        _VirtualDatetime._loop = self.loop
        self._clocks = vloop.patched_clocks(self.loop)
        self._clocks.__enter__()
        self.store = SqliteWorkflowStore(db_path)
        sysm = self

        class StandIn(BasicRuntime):                 # stands in for DBOSRuntime
            def run_workflow(self, run_id, workflow, init_state, start_event=None, serialized_state=None,
                             serializer=None):
                ext = super().run_workflow(run_id, workflow, init_state, start_event=start_event,
                                           serialized_state=None, serializer=serializer)
                q = self._queues[run_id]
                sysm.queues.append(q)
                sysm.live_loops += 1
                sysm.max_live = max(sysm.max_live, sysm.live_loops)
                sysm.log({"a": "loop_start", "live": sysm.live_loops})

                def done(t):
                    sysm.live_loops -= 1
                    res = "cancelled" if t.cancelled() else (
                        type(t.exception()).__name__ if t.exception() else type(t.result()).__name__)
                    stranded = [type(x).__name__ for x in list(q.receive_queue._queue)]
                    sysm.log({"a": "loop_exit", "live": sysm.live_loops, "result": res,
                              "stranded_events": sum(1 for x in stranded if x == "TickAddEvent"),
                              "running_steps": sysm.in_step, "unanswered": len(sysm.outstanding)})
                q.complete.add_done_callback(done)
                return ext

            def get_external_adapter(self, run_id):
                inner = super().get_external_adapter(run_id)
                if not sysm.send_yields:
                    return inner
                # a DBOS send is a database write: the recipient may pick the message up before the sender's call
                # returns.  The put happens, then the sender yields `send_yields` times before send_event returns.
                orig = inner.send_event

                async def send_event(tick):
                    await orig(tick)
                    for _ in range(sysm.send_yields):
                        await asyncio.sleep(0)
                inner.send_event = send_event
                return inner

        self.queues = []
        self.outstanding = set()     # events received by a control loop (or handed to a resume) and not yet answered
        self.in_step = 0
        self.basic = StandIn()

        class _RecInternal(BaseInternalRunAdapterDecorator):
            async def wait_receive(self, timeout_seconds=None):
                r = await super().wait_receive(timeout_seconds)
                if isinstance(r, WaitResultTick):
                    k = "rel" if isinstance(r.tick, TickIdleRelease) else ("ev" if isinstance(r.tick, TickAddEvent) else "other")
                    if k == "ev":
                        sysm.outstanding.add(str(getattr(r.tick.event, "response", "?")))
                    sysm.log({"a": "recv", "tick": k})
                return r

            async def write_to_event_stream(self, event):
                await super().write_to_event_stream(event)
                if type(event).__name__ == "WorkflowIdleEvent":
                    sysm.log({"a": "idle_announced"})

        class _Rec(BaseRuntimeDecorator):            # recording layer just below the decorator under test
            def get_internal_adapter(self, workflow):
                return _RecInternal(self._decorated.get_internal_adapter(workflow))

        class FakeDBOS:                              # the two DBOS calls idle_release.py makes
            @staticmethod
            async def retrieve_workflow_async(run_id):
                q = sysm.queues[-1]

                class H:
                    async def get_result(self_inner):
                        return await q.complete
                return H()

            @staticmethod
            async def delete_workflow_async(run_id):
                sysm.basic._queues.pop(run_id, None)
        self.ir.DBOS = FakeDBOS

        tp = TickPersistenceDecorator(self.basic, self.store)
        self.real_lock = self.lc.SqliteRunLifecycleLock(db_path)
        self.lock = _GatedLock(self, self.real_lock)
        self.dec = self.ir.DBOSIdleReleaseDecorator(_Rec(EventInterceptorDecorator(tp)), store=self.store,
                                                    idle_timeout=idle_timeout, lifecycle_lock=lambda: self.lock)
        # the release task's writes and sends are logged too
        o_status = self.store.update_handler_status

        async def update_handler_status(run_id, **kw):
            await o_status(run_id, **kw)
            if "idle_since" in kw:
                sysm.log({"a": "mark", "idle": kw["idle_since"] is not None})
        self.store.update_handler_status = update_handler_status
        n_events_ = n_events

        class WF(Workflow):
            @step
            async def start(self, ctx: Context, ev: StartEvent) -> InputRequiredEvent:
                sysm.log({"a": "step", "name": "start"})
                return InputRequiredEvent()

            @step
            async def answer(self, ctx: Context, ev: HumanResponseEvent) -> InputRequiredEvent | StopEvent:
                sysm.in_step += 1
                try:
                    await asyncio.sleep(1.0)                       # the step takes (virtual) time
                    sysm.answers += 1
                    sysm.outstanding.discard(str(ev.response))
                    sysm.log({"a": "step", "name": "answer", "n": sysm.answers, "uid": str(ev.response)})
                finally:
                    sysm.in_step -= 1
                return StopEvent(result="done") if sysm.answers >= n_events_ else InputRequiredEvent()

        if nudge:
            # the same workflow with an INTERNAL wake-up while it waits for input: a side step fails once and is retried
            # 2 s later -- idle is announced, the retry wakes the run, idle is announced again, with no received tick between
            from workflows.events import Event as _Event
            from workflows.retry_policy import retry_policy as _rp, stop_after_attempt as _saa, wait_fixed as _wf

            class Nudge(_Event):
                pass
            globals()["Nudge"] = Nudge          # (string annotations are resolved against the module's globals)
            self.nudges = 0

            class WFN(Workflow):
                @step
                async def start(self, ctx: Context, ev: StartEvent) -> InputRequiredEvent | Nudge:
                    sysm.log({"a": "step", "name": "start"})
                    ctx.send_event(Nudge())
                    return InputRequiredEvent()

                @step(retry_policy=_rp(wait=_wf(2), stop=_saa(3)))
                async def nudge(self, ev: Nudge) -> None:
                    sysm.nudges += 1
                    sysm.log({"a": "step", "name": "nudge", "n": sysm.nudges})
                    if sysm.nudges == 1:
                        raise RuntimeError("not yet")
                    return None

                @step
                async def answer(self, ctx: Context, ev: HumanResponseEvent) -> InputRequiredEvent | StopEvent:
                    sysm.in_step += 1
                    try:
                        await asyncio.sleep(1.0)
                        sysm.answers += 1
                        sysm.outstanding.discard(str(ev.response))
                        sysm.log({"a": "step", "name": "answer", "n": sysm.answers, "uid": str(ev.response)})
                    finally:
                        sysm.in_step -= 1
                    return StopEvent(result="done") if sysm.answers >= n_events_ else InputRequiredEvent()
            WF = WFN
        self.wf = None
        self.WF = WF
        self.run_id = None
        self.PersistentHandler = PersistentHandler
        self.create_row = create_row

    # ------------------------------------------------------------------ plumbing
    def log(self, rec):
        rec["t"] = int(round((self.loop.time() - 1000.0) * 10))
        self.events.append(rec)

    def current_actor(self):
        t = asyncio.current_task()
        return self.actors.get(t, "rel")              # anything that is not a sender task is the release path

    def _spawn(self, coro, actor=None):
        t = self.loop.create_task(coro)
        if actor:
            self.actors[t] = actor
        return t

    def _sync(self, coro):
        t = self._spawn(coro)
        self.loop.quiesce()
        return t.result()

    # ------------------------------------------------------------------ commands
    def start(self):
        async def go():
            self.wf = self.WF(runtime=self.dec, timeout=None)
            h = self.wf.run()
            self.handler = h
            self.run_id = h.run_id
        self._sync(go())
        self._sync(self.store.update(self.PersistentHandler(handler_id="h1", workflow_name=self.wf.workflow_name,
                                                            status="running", run_id=self.run_id)))
        if self.create_row:
            # what the missing call site would do ("Called when workflow starts")
            self._sync(self.real_lock.create(self.run_id))
        self.loop.quiesce()

    def send(self, s):
        async def go():
            try:
                await self.dec.get_external_adapter(self.run_id).send_event(
                    self.TickAddEvent(event=self.HumanResponseEvent(response=s)))
                self.senders[s] = "ok"
                self.log({"a": "send_done", "who": s, "ok": True})
            except Exception as e:
                self.senders[s] = "failed:" + type(e).__name__
                self.log({"a": "send_done", "who": s, "ok": False, "err": type(e).__name__})
        self.senders[s] = "pending"
        self._spawn(go(), actor=s)
        self.loop.quiesce()

    def go(self, gates):
        for g in gates:
            f = self.gates.get(g)
            if f is not None and not f.done():
                f.set_result(None)
        self.loop.quiesce()

    def advance(self, dt):
        self.loop.advance(dt)

    def handler_row(self):
        hs = self._sync(self.store.query(self.HandlerQuery(run_id_in=[self.run_id])))
        return hs[0] if hs else None

    def summary(self):
        h = self.handler_row()
        return {"events": [dict(e) for e in self.events], "row": read_row(self.db, self.run_id),
                "idle_marked": bool(h and h.idle_since is not None), "live": self.live_loops, "max_live": self.max_live,
                "answers": self.answers, "senders": dict(self.senders), "pending_gates": sorted(self.gates),
                "idle_timeout": int(self.idle_timeout), "n_events": self.n_events, "create_row": self.create_row}

    def close(self):
        try:
            for t in [t for t in asyncio.all_tasks(self.loop) if not t.done()]:
                t.cancel()
            self.loop.quiesce()
        except Exception:
            pass
        self._clocks.__exit__(None, None, None)
        vloop.close_loop(self.loop)


def run_deco_case(db_path, case):
    """case: {label, idle_timeout, n_events, create_row, hold: [...], script: [[cmd, arg], ...]}"""
    s = DecoSystem(db_path, idle_timeout=case.get("idle_timeout", 10.0), n_events=case.get("n_events", 2),
                   create_row=case.get("create_row", True), hold=case.get("hold", ()), send_yields=case.get("send_yields", 0),
                   nudge=case.get("nudge", False))
    try:
        s.start()
        for cmd in case["script"]:
            if cmd[0] == "send":
                s.send(cmd[1])
            elif cmd[0] == "go":
                s.go(cmd[1])
            elif cmd[0] == "advance":
                s.advance(float(cmd[1]))
            elif cmd[0] == "probe":
                h = s.handler_row()
                s.log({"a": "probe", "name": cmd[1], "live": s.live_loops, "row": read_row(s.db, s.run_id),
                       "idle_marked": bool(h and h.idle_since is not None), "answers": s.answers})
            else:
                raise ValueError(cmd)
        out = s.summary()
        out["label"] = case["label"]
        return out
    finally:
        s.close()
