"""API layer of C16: the real `_WorkflowAPI._stream_events` / `_resolve_event_stream` on top of the real stores,
driven with small fakes for starlette's Request / StreamingResponse / HTTPException (starlette is not installed;
the names the module imported from the stub are replaced by these fakes -- the code of _api.py is unchanged).

A consumer is an async generator that performs the HTTP request at its first __anext__ and then parses the
SSE chunks `id: <sequence>\\ndata: <envelope json>\\n\\n` back into (sequence, payload) -- so the same driver
commands, the same schedules and the same observer (Obs_C16) apply as for the bare stores.
Cursor modes:  query  -> ?after_sequence=<k>          header -> ?after_sequence=now + Last-Event-ID: <k>
               now    -> ?after_sequence=now (after0 := last stored sequence at the time of the request)
HTTP 204 ("handler completed, everything consumed") is reported as consumer state "closed".
"""
from __future__ import annotations

import importlib
import json
import types

from harness.drivers import event_log as drv


class FakeHTTPException(Exception):
    def __init__(self, status_code=500, detail=None, **kw):
        super().__init__(detail)
        self.status_code = status_code
        self.detail = detail


class FakeStreamingResponse:
    def __init__(self, content, media_type=None, **kw):
        self.body_iterator = content
        self.media_type = media_type


class FakeRequest:
    def __init__(self, handler_id, query, headers):
        self.path_params = {"handler_id": handler_id}
        self.query_params = dict(query)
        self.headers = {k.lower(): v for k, v in headers.items()}


_API = None


def api_module():
    global _API
    if _API is None:
        m = importlib.import_module("llama_agents.server._api")
        m.HTTPException = FakeHTTPException
        m.StreamingResponse = FakeStreamingResponse
        _API = m
    return _API


class ApiSystem(drv.System):
    def __init__(self, stores, backend, subs, mode):
        super().__init__(stores, backend, subs)
        self.mode = mode
        m = api_module()
        self.api = object.__new__(m._WorkflowAPI)
        self.api._service = types.SimpleNamespace(store=self.store)
        self.api._sse_heartbeat_interval = None
        self.api._additional_events = {}
        self.hid = "h_" + self.run
        _, _, ab, _ = drv.mods()
        t = self.loop.create_task(self.store.update(ab.PersistentHandler(
            handler_id=self.hid, workflow_name="w", status="running", run_id=self.run)))
        self._quiesce()
        t.result()
        self.closed = set()

    def _subscribe(self, after, u=None, first=True):
        sysm = self

        async def consumer():
            query, headers = {"sse": "true"}, {}
            mode = sysm.mode if first else "header"      # a reconnecting SSE client sends Last-Event-ID
            if mode == "query":
                query["after_sequence"] = str(after)
            elif mode == "header":
                query["after_sequence"] = "now"
                headers["Last-Event-ID"] = str(after)
            else:
                cur = await sysm.store.query_events(sysm.run)
                sysm.subs[u]["after0"] = cur[-1].sequence if cur else -1
            try:
                resp = await sysm.api._stream_events(FakeRequest(sysm.hid, query, headers))
            except FakeHTTPException as e:
                if e.status_code == 204:
                    sysm.closed.add(u)
                    return
                raise
            async for chunk in resp.body_iterator:
                if chunk.startswith(":"):
                    continue
                lines = chunk.split("\n")
                sid = int(lines[0][len("id: "):])
                env = json.loads(lines[1][len("data: "):])
                _, _, _, envm = drv.mods()
                yield types.SimpleNamespace(sequence=sid, event=envm.EventEnvelopeWithMetadata(**env))
        return consumer()

    def _issue(self, c):
        op, u, n = c["op"], c["u"], c["n"]
        if op == "start":
            s = self.subs[u]
            s.update(pc="init", after0=int(n), after=int(n), gen=self._subscribe(int(n), u, True), delivered=[])
        elif op == "reconnect":
            s = self.subs[u]
            old, task = s["gen"], s["task"]
            last = s["delivered"][-1][0] if s["delivered"] else s["after0"]
            s["gen"] = self._subscribe(last, u, False)
            s["after"] = last
            s["pc"] = "init"
            s["task"] = None
            if task is not None:
                task.cancel()
            else:
                self.loop.create_task(old.aclose())
        else:
            super()._issue(c)

    def project(self):
        p = super().project()
        for u in self.closed:
            if p["subs"][u]["pc"] == "done":
                p["subs"][u]["pc"] = "closed"
        return p


def run_schedule(stores, backend, subs, schedule, mode):
    s = ApiSystem(stores, backend, subs, mode)
    try:
        tr = []
        for batch in schedule:
            issued, post = s.apply(batch)
            if issued:
                tr.append({"cmds": issued, "post": post})
        return tr, list(s.errors)
    finally:
        s.close()
