"""Driver for C20: several tasks update ONE real state store concurrently under the virtual loop.

Every process is a task that runs its program (list of {"op","k","v"}); before every operation it
waits for the driver's "go", and inside an edit_state block it waits for the driver's "resume":

    set        await store.set(k, v)
    setstate   await store.set_state(DictState(**{k: v}))   /  CState(**{k: v})        (replace)
    setparent  await store.set_state(PState(a=v))                                      (typed: merge)
    clear      await store.clear()
    edit       async with store.edit_state() as s:  x = s[k] (0 if absent); <await gate>; s[k] = x + v

Commands (environment actions of StateStoreConc.tla):  ["go", p]  ["resume", p].  A batch of commands
is issued at a quiescence point, then the loop runs until quiescent and the state is projected
(same projection for replaying TLC schedules and for recording).
"""
from __future__ import annotations

import itertools

from harness.drivers import state_store as base
from harness.env import vloop

KEYS = ("a", "b")


def content(state):
    """top-level integers of a state object, as {key: int} (what Obs_C20 / the trace spec compare)"""
    d = base.dump_state(state)["m"]
    out = {}
    for k, t in d.items():
        out[k] = t["v"] if t.get("t") == "s" else -1
    return out


class System:
    def __init__(self, backend, kind, prog, env=None):
        self.backend, self.kind = backend, kind
        self.prog = {p: [dict(o) for o in ops] for p, ops in prog.items()}
        self.procs = sorted(self.prog)
        self.loop = vloop.new_loop()
        self.env = env
        if backend == "sqlite":
            self.store = env.store(kind)
        else:
            self.store = base.memory_store(kind)
        self.seq = 0
        self.go = {p: [self.loop.create_future() for _ in self.prog[p]] for p in self.procs}
        self.body = {p: [self.loop.create_future() for _ in self.prog[p]] for p in self.procs}
        self.done = {p: 0 for p in self.procs}
        self.issued = {p: 0 for p in self.procs}
        self.inblock = {p: False for p in self.procs}
        self.recs = []
        self.errors = []
        if backend == "sqlite" and kind == "typed":
            # the row is created first: set_state(parent) on a missing row is C19's finding, not C20's
            self.loop.run_until_complete(self.store.get_state())
        self.tasks = {p: self.loop.create_task(self._proc(p)) for p in self.procs}
        self.loop.quiesce()

    def _next(self):
        self.seq += 1
        return self.seq

    async def _snap(self):
        return content(await self.store.get_state())

    async def _proc(self, p):
        store = self.store
        for i, o in enumerate(self.prog[p]):
            await self.go[p][i]
            self.issued[p] = i + 1
            rec = {"p": p, "i": i + 1, "op": o["op"], "k": o["k"], "v": o["v"], "enter": self._next(),
                   "done": 0, "before": {}, "after": {}}
            self.recs.append(rec)
            try:
                op, k, v = o["op"], o["k"], o["v"]
                if op == "set":
                    await store.set(k, v)
                elif op == "setstate":
                    await store.set_state(base.make_state("dict" if self.kind == "dict" else "child", {k: v}))
                elif op == "setparent":
                    await store.set_state(base.make_state("parent", {"a": v}))
                elif op == "clear":
                    await store.clear()
                elif op == "edit":
                    async with store.edit_state() as s:
                        x = s.get(k, 0) if self.kind == "dict" else getattr(s, k)
                        rec["enter"] = self._next()
                        self.inblock[p] = True
                        await self.body[p][i]
                        # no suspension between this read, the write and the commit
                        rec["before"] = await self._snap()
                        if self.kind == "dict":
                            s[k] = x + v
                        else:
                            setattr(s, k, x + v)
                    self.inblock[p] = False
                else:
                    raise RuntimeError("unknown op " + op)
                rec["after"] = await self._snap()
            except Exception as e:  # no operation of these programs may raise
                self.errors.append("%s op %d %s: %s: %s" % (p, i + 1, o["op"], type(e).__name__, e))
                self.inblock[p] = False
            rec["done"] = self._next()
            self.done[p] = i + 1

    # ------------------------------------------------------------ driver interface
    def pc(self, p):
        if self.inblock[p]:
            return "inblock"
        if self.issued[p] > self.done[p]:
            return "lockwait"
        return "idle"

    def enabled(self):
        out = []
        for p in self.procs:
            s = self.pc(p)
            if s == "idle" and self.done[p] < len(self.prog[p]):
                out.append(["go", p])
            elif s == "inblock":
                out.append(["resume", p])
        return out

    def apply(self, cmds):
        for name, p in cmds:
            if name == "go":
                f = self.go[p][self.done[p]]
            elif name == "resume":
                f = self.body[p][self.done[p]]
            else:
                raise ValueError(name)
            if not f.done():
                f.set_result(None)
        self.loop.quiesce()
        return self.project()

    def raw_content(self):
        """store contents read from where they live (memory: the state object; sqlite: the row)"""
        if self.backend == "memory":
            return content(self.store._state)
        row = self.env.raw_row(self.store)
        if row is None:
            return {}
        return content(self.store._deserialize_state(row))

    def project(self):
        lk = self.store.__dict__.get("_lock")          # cached_property: absent until first use
        ws = list(getattr(lk, "_waiters", None) or []) if lk is not None else []
        return {"pc": {p: self.pc(p) for p in self.procs},
                "ip": {p: self.done[p] + 1 for p in self.procs},
                "locked": bool(lk.locked()) if lk is not None else False,
                "nwait": len(ws),
                "store": self.raw_content()}

    def all_done(self):
        return all(self.done[p] == len(self.prog[p]) for p in self.procs)

    def final(self):
        """final state through the public API: get_state() and get(k)"""
        async def f():
            st = content(await self.store.get_state())
            gets = {}
            for k in KEYS:
                try:
                    v = await self.store.get(k)
                    gets[k] = v if isinstance(v, int) and not isinstance(v, bool) else -1
                except Exception:
                    pass
            return st, gets
        t = self.loop.create_task(f())
        self.loop.quiesce()
        return t.result()

    def close(self):
        vloop.close_loop(self.loop)


def run_schedule(backend, kind, prog, schedule, env=None, drift=None):
    """Execute a list of command batches (commands not enabled at that point are skipped and reported in
    `drift`); afterwards everything still pending is released so that the run completes.
    Returns the recorded trace dict."""
    s = System(backend, kind, prog, env)
    try:
        evs = []
        for batch in schedule:
            en = s.enabled()
            ok = [list(c) for c in batch if list(c) in en]
            if drift is not None and len(ok) != len(batch):
                drift.append([c for c in batch if list(c) not in en])
            if ok:
                evs.append({"cmds": ok, "post": s.apply(ok)})
        guard = 0
        while not s.all_done():
            en = s.enabled()
            guard += 1
            if not en or guard > 50:
                break
            evs.append({"cmds": [en[0]], "post": s.apply([en[0]])})
        final, gets = s.final()
        return _trace(s, evs, final, gets)
    finally:
        s.close()


def _trace(s, evs, final, gets):
    return {"backend": s.backend, "kind": s.kind, "procs": s.procs,
            "prog": {p: s.prog[p] for p in s.procs},
            "events": evs, "ops": [dict(r) for r in s.recs], "final": final, "final_gets": gets,
            "complete": s.all_done(), "errors": list(s.errors)}


def explore(backend, kind, prog, env=None, max_batch=2, max_traces=None):
    """Exhaustive exploration of the real store for one program: DFS over batches of enabled commands
    (singletons and ordered pairs), re-executing from scratch for every path; pruned on the projected
    state + progress (a pruned path is still recorded)."""
    seen = set()
    traces = []

    def rec(schedule):
        if max_traces is not None and len(traces) >= max_traces:
            return
        s = System(backend, kind, prog, env)
        try:
            evs = [{"cmds": [list(c) for c in cmds], "post": s.apply(cmds)} for cmds in schedule]
            en = s.enabled()
            post = evs[-1]["post"] if evs else s.project()
            key = repr((sorted(post["pc"].items()), sorted(post["ip"].items()), post["locked"], post["nwait"],
                        sorted(post["store"].items()), [(r["p"], r["i"], r["done"] > 0) for r in s.recs]))
            leaf = not en
            if leaf or (key in seen and schedule):
                if not leaf:
                    # finish deterministically so that the trace has a final state
                    guard = 0
                    while not s.all_done() and guard < 50:
                        e2 = s.enabled()
                        if not e2:
                            break
                        evs.append({"cmds": [e2[0]], "post": s.apply([e2[0]])})
                        guard += 1
                final, gets = s.final()
                traces.append(_trace(s, evs, final, gets))
                return
            seen.add(key)
        finally:
            s.close()
        batches = []
        for n in range(1, max_batch + 1):
            for combo in itertools.permutations(en, n):
                if len({c[1] for c in combo}) == n:
                    batches.append([list(c) for c in combo])
        for b in batches:
            rec(schedule + [b])

    rec([])
    return traces
