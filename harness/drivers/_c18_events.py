"""Importable classes and value tables for the C18 serde grid (abstract kind -> real class / real values).

The serializers under test re-import event classes (and exception classes) by qualified name, so everything a
vector is concretised with must be reachable as an attribute of this module.  Event classes with typed fields are
generated on demand: the class for base kind `b` and typed field kinds `k1, k2` is `<Base>__k1__k2`; module-level
`__getattr__` builds (and caches) it, so `import_module(...)`+`getattr` finds it whether or not it already exists.

Field naming: typed field of kind k -> `f_<k>`; dynamic field of kind k -> `d_<k>`.
Every kind has a few representative values; the vector's `rep` index picks one (modulo the list length).
"""
from __future__ import annotations

import json
import sys
from datetime import datetime, timedelta, timezone
from enum import Enum
from typing import Any, Optional, Union

from pydantic import BaseModel, ValidationError

from workflows.events import (
    Event,
    HumanResponseEvent,
    InputRequiredEvent,
    SerializableEvent,
    StartEvent,
    StopEvent,
)

_THIS = sys.modules[__name__]
UNI = "héllo ✓ 日本語 \"q\" \\ / \n\ttab"


# ------------------------------------------------------------------ nested models / events / enums
class Inner(BaseModel):
    n: int
    s: str = "x"


class Outer(BaseModel):
    inner: Inner
    items: list[Inner] = []
    tags: dict[str, Optional[float]] = {}


class Color(Enum):
    RED = "red"
    BLUE = "blue"


class Level(str, Enum):
    LOW = "low"
    HIGH = "high"


class Leaf(Event):
    v: int


class LeafSub(Leaf):
    w: str = "w"


class Trigger(Event):
    """the 'other' event of tick paths (the event that triggered the step / the event waited for)"""
    tag: str = "t"


# ------------------------------------------------------------------ exception classes
class CustomError(Exception):
    pass


class CustomSubError(CustomError):
    pass


class PrefixedError(Exception):
    """a class whose str() is not its constructor argument (common in client libraries)"""

    def __str__(self) -> str:
        return "PrefixedError: " + (str(self.args[0]) if self.args else "")


class CodeError(Exception):
    """a class whose constructor needs more than the message"""

    def __init__(self, code: int, message: str) -> None:
        super().__init__(code, message)
        self.code = code
        self.message = message

    def __str__(self) -> str:
        return "[%d] %s" % (self.code, self.message)


class StatusError(Exception):
    """a class whose constructor PARSES its argument (an HTTP status): the bare message makes it raise ValueError"""

    def __init__(self, status) -> None:
        self.status = int(status)
        super().__init__("status %d" % self.status)


class ResponseError(Exception):
    """a class whose constructor dereferences its argument (a response object): the bare message makes it raise AttributeError"""

    def __init__(self, response) -> None:
        super().__init__(response.text)
        self.response = None


class _Resp:
    text = "bad gateway"


class Holder:
    class NestedError(Exception):
        """qualname 'Holder.NestedError': not resolvable by import_module(rsplit('.', 1)) -> documented fallback"""


def _local_class():
    return type("LocalError", (Exception,), {"__module__": __name__ + ".<locals>"})


def _json_decode_error():
    try:
        json.loads("{not json")
    except json.JSONDecodeError as e:
        return e
    raise AssertionError


def _unicode_error():
    try:
        b"\xff\xfe".decode("utf-8")
    except UnicodeDecodeError as e:
        return e
    raise AssertionError


def _pydantic_error():
    try:
        Inner(n="not a number")  # type: ignore[arg-type]
    except ValidationError as e:
        return e
    raise AssertionError


def _chained():
    try:
        try:
            raise KeyError("inner")
        except KeyError as k:
            raise ValueError("outer failed") from k
    except ValueError as e:
        return e
    raise AssertionError


# kind -> list of zero-argument factories (a fresh exception object per use)
EXC_KINDS = {
    "builtin_msg": [lambda: ValueError("boom"), lambda: RuntimeError("step 3 failed: code=503"), lambda: TypeError("x")],
    "builtin_empty": [lambda: RuntimeError(), lambda: ValueError("")],
    "builtin_uni": [lambda: ValueError(UNI), lambda: RuntimeError("\u00fc\u00f1\u00ee")],
    "builtin_args2": [lambda: ValueError("a", 2)],
    "oserror": [lambda: OSError(2, "No such file"), lambda: FileNotFoundError(2, "missing", "f.txt"),
                lambda: TimeoutError("timed out")],
    "custom_msg": [lambda: CustomError("custom boom"), lambda: CustomSubError("sub boom")],
    "custom_empty": [lambda: CustomError()],
    "chained": [_chained],
    "keyerror": [lambda: KeyError("missing_key"), lambda: KeyError("k")],
    "custom_str": [lambda: PrefixedError("rate limited")],
    # constructors that do not accept the bare message: need more arguments (TypeError), parse it (ValueError),
    # dereference it (AttributeError)
    "custom_ctor2": [lambda: CodeError(503, "unavailable"), lambda: StatusError(404), lambda: ResponseError(_Resp())],
    "stdlib_ctor": [_json_decode_error, _unicode_error],
    "pydantic_validation": [_pydantic_error],
    # documented fallback to Exception (tests/runtime/test_tick_serialization.py::test_exception_roundtrip_unimportable):
    "unresolvable_local": [lambda: _local_class()("oops")],
    "unresolvable_nested": [lambda: Holder.NestedError("nested oops")],
}

class _Unset:
    def __repr__(self):
        return "UNSET"


UNSET = _Unset()          # marker: do not pass the field to the constructor
_ids = iter(range(1000, 10 ** 9))


def _next_id():
    return next(_ids)


# ------------------------------------------------------------------ typed field kinds: kind -> (annotation, values)
_UTC = timezone.utc
TYPED_KINDS = {
    "int": (int, [-(2 ** 40), 0, 7]),
    "str": (str, [UNI, "", "hello"]),
    "float_int": (float, [2.0, 0.0, -1000.0]),
    "float_frac": (float, [0.5, -3.25, 1e-07]),
    "bool": (bool, [True, False]),
    "opt_none": (Optional[int], [None]),
    "opt_some": (Optional[str], ["", "v"]),
    "union": (Union[int, str], [1, "1", ""]),
    "list_int": (list[int], [[1, 2, 3], [], [0]]),
    "list_str": (list[str], [["a", "é", ""], []]),
    "list_list": (list[list[int]], [[[1], [], [2, 3]]]),
    "dict_str_int": (dict[str, int], [{"a": 1, "b": 2}, {}, {"é": 0, "": -1}]),
    "dict_nested": (dict[str, list[dict[str, float]]], [{"k": [{"x": 1.5}, {}], "e": []}]),
    "any_json": (Any, [{"a": [1, "x", None, 2.5, True]}, 5, "s", None, [[]]]),
    "model": (Inner, [lambda: Inner(n=1, s="x"), lambda: Inner(n=0, s="")]),
    "model_nested": (Outer, [lambda: Outer(inner=Inner(n=1), items=[Inner(n=2, s=UNI), Inner(n=3)], tags={"a": 0.5, "b": None}),
                             lambda: Outer(inner=Inner(n=-1, s=""))]),
    "opt_model": (Optional[Inner], [lambda: Inner(n=4), None]),
    "list_model": (list[Inner], [lambda: [Inner(n=1), Inner(n=2, s="y")], lambda: []]),
    "dict_model": (dict[str, Inner], [lambda: {"a": Inner(n=1), "é": Inner(n=2, s="")}]),
    "list_nested_model": (list[Outer], [lambda: [Outer(inner=Inner(n=1), items=[Inner(n=5)])]]),
    "event": (Leaf, [lambda: Leaf(v=1), lambda: Leaf(v=2, extra="dyn", more=[1, {"z": None}])]),
    "event_ser": (SerializableEvent, [lambda: LeafSub(v=1, w="z"), lambda: Leaf(v=3, extra=[1]),
                                      lambda: StartEvent(topic="t"), lambda: StopEvent(result={"r": [1]})]),
    "enum": (Color, [Color.RED, Color.BLUE]),
    "str_enum": (Level, [Level.LOW, Level.HIGH]),
    "datetime_aware": (datetime, [datetime(2026, 1, 2, 3, 4, 5, tzinfo=_UTC),
                                  datetime(2026, 6, 30, 23, 59, 59, 678901, tzinfo=timezone(timedelta(hours=2))),
                                  datetime(1999, 12, 31, 0, 0, 0, tzinfo=timezone(timedelta(hours=-5, minutes=-30)))]),
    "datetime_naive": (datetime, [datetime(2026, 1, 2, 3, 4, 5), datetime(2026, 1, 2, 3, 4, 5, 1)]),
    # typed containers that JSON lacks but the annotation restores
    "tuple_typed": (tuple[int, str], [(1, "a")]),
    "set_typed": (set[int], [{1, 2, 3}, set()]),
    # a field the caller leaves unset, filled by a default_factory that gives a new value on every call (generated id,
    # creation stamp): the value the event was built with must come back, not a regenerated one
    "factory_unset": (int, [UNSET]),
}

# ------------------------------------------------------------------ dynamic field / result kinds: kind -> values
JSON_KINDS = {
    "int": [1, 0, -5, 2 ** 40],
    "str": [UNI, "", "x"],
    "float_int": [1.0, 0.0],
    "float_frac": [0.25, -1e-07],
    "bool": [True, False],
    "none": [None],
    "list": [[1, "a", None, 2.5, True], [], [[]]],
    "dict": [{"k": 1, "é": "v"}, {}, {"": None}],
    "nested": [{"a": [{"b": [1, {"c": None}]}], "z": {}, "l": [[], [0.5]]}],
    # looks like the serializer's own tagging; must still come back as the same plain dict
    "tagged_lookalike": [{"__is_pydantic": False, "value": {"n": 1}, "qualified_name": "x.Y"}],
}
# values that are not JSON values: an untyped slot cannot restore them (recorded, never demanded)
LOSSY_KINDS = {
    "model": [lambda: Inner(n=1, s="m")],
    "event": [lambda: Leaf(v=1, extra="e")],
    "enum": [Color.RED],
    "datetime": [datetime(2026, 1, 2, 3, 4, 5, tzinfo=_UTC)],
    "tuple": [(1, 2)],
}


def value_of(table, kind, rep):
    vals = table[kind][1] if table is TYPED_KINDS else table[kind]
    v = vals[rep % len(vals)]
    return v() if callable(v) and not isinstance(v, type) else v


def untyped_value(kind, rep):
    if kind in JSON_KINDS:
        return value_of(JSON_KINDS, kind, rep)
    return value_of(LOSSY_KINDS, kind, rep)


def exception_of(kind, rep):
    fs = EXC_KINDS[kind]
    return fs[rep % len(fs)]()


# ------------------------------------------------------------------ generated event classes
BASES = {
    "event": Event,
    "start": StartEvent,
    "stop": StopEvent,
    "input_required": InputRequiredEvent,
    "human_response": HumanResponseEvent,
}
_PREFIX = {"event": "Ev", "start": "St", "stop": "Sp", "input_required": "Ir", "human_response": "Hr"}
_BY_PREFIX = {v: k for k, v in _PREFIX.items()}


def class_name(base, kinds):
    return "__".join([_PREFIX[base]] + sorted(kinds))


def _build(name):
    parts = name.split("__")
    base = _BY_PREFIX.get(parts[0])
    kinds = parts[1:]
    if base is None or not kinds or any(k not in TYPED_KINDS for k in kinds) or sorted(kinds) != kinds:
        raise AttributeError(name)
    ns = {"__module__": __name__, "__qualname__": name,
          "__annotations__": {"f_" + k: TYPED_KINDS[k][0] for k in kinds}}
    if "factory_unset" in kinds:
        from pydantic import Field
        ns["f_factory_unset"] = Field(default_factory=_next_id)
    cls = type(name, (BASES[base],), ns)
    setattr(_THIS, name, cls)
    return cls


def __getattr__(name):  # PEP 562: generated classes are importable by name
    if name.startswith("__"):
        raise AttributeError(name)
    return _build(name)


def event_class(base, kinds):
    """The real class for base kind `base` with typed fields of the given kinds (base class itself when none)."""
    if not kinds:
        return BASES[base]
    name = class_name(base, kinds)
    return _THIS.__dict__.get(name) or _build(name)
