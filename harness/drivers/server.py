"""Driver for the real WorkflowServer runtime stack (ServerRuntimeDecorator > IdleReleaseDecorator >
PersistenceDecorator > BasicRuntime) on SqliteWorkflowStore / MemoryWorkflowStore under the virtual loop.

The real `WorkflowServer.__init__` assembles the stack; only the innermost `basic_runtime` is replaced by the
harness' recording subclass of BasicRuntime.  A "crash" is the process stopping right after the k-th persisted
tick (the control loop never gets to execute that tick's commands); a "restart" is a brand-new server object,
event loop and workflow object on the same SQLite file.
"""
from __future__ import annotations

import asyncio
import datetime as _dt
import json
import os

from harness.env import stubimport, vloop

stubimport.install()

from harness.drivers import engine as en  # noqa: E402
from harness.programs import events as E  # noqa: E402
from harness.programs.compile import Rig, compile_program  # noqa: E402

import llama_agents.server.server as S  # noqa: E402
import llama_agents.server._runtime.idle_release_runtime as IR  # noqa: E402
import llama_agents.server._runtime.server_runtime as SR  # noqa: E402
from llama_agents.server import MemoryWorkflowStore, SqliteWorkflowStore, WorkflowServer  # noqa: E402
from llama_agents.server._store.abstract_workflow_store import HandlerQuery  # noqa: E402


class _VirtualDatetime(_dt.datetime):
    """datetime whose now() reads the virtual wall clock (patched into the server modules, harness process only)."""
    _loop = None

    @classmethod
    def now(cls, tz=None):
        return _dt.datetime.fromtimestamp(cls._loop.wall(), tz)


class StoreFault(RuntimeError):
    pass


TRACES = {}          # key (db path or unique id) -> {"idle_timeout_ms", "backoffs_ms", "lines"}: server-layer lines of every
                     # system run since the last take_traces(); a restart on the same database continues the same record
_anon = [0]


ENGINE_TRACES = []   # (program, trace in the engine driver's record format, one "run" per control loop): the loops inside
                     # the server, for TraceEngine.tla


def take_traces():
    out = list(TRACES.values())
    TRACES.clear()
    return out


def take_engine_traces():
    out = list(ENGINE_TRACES)
    ENGINE_TRACES.clear()
    return out


def engine_view(trace):
    """The server trace as the engine driver would have recorded it: run = generation of the control loop.
    External input is taken where it reaches the run's mailbox (the end of the external adapter's send_event), not from
    the driver's command line: a send to a released run comes after the loop that the send itself made the stack start."""
    out = []
    gen = 0
    dead = False
    adv_to = 0
    for r in trace:
        e = r["e"]
        if e == "cmd" and r["cmd"][0] == "advance":
            adv_to = max(adv_to, int(r["cmd"][1]))
        if e == "loop_start":
            gen = r["gen"]
            dead = False
            continue
        if e in ("abort", "crash"):
            dead = True                        # the loop of this generation executes nothing after this
            if e == "crash" and out and out[-1]["e"] == "tick" and out[-1].get("run") == gen:
                out.pop()                      # the process stopped inside on_tick: the commands of this tick never ran
            continue
        if gen == 0 or dead:
            continue
        if e == "run_init":
            out.append(dict(r, run=gen))
            if adv_to > r["t"]:                # the loop was started inside a driver advance: time goes on passing
                out.append({"e": "cmd", "cmd": ["sleep", adv_to - r["t"]], "run": gen, "t": r["t"], "seq": r["seq"]})
        elif e == "tick" and "state" in r:
            out.append(dict(r, run=gen))
        elif e in ("step_end", "wait", "step_start"):
            out.append(dict(r, run=gen))
        elif e == "ext_send_end" and "ptick" in r:
            tk = r["ptick"]
            if tk["k"] == "add":
                out.append({"e": "cmd", "cmd": ["send", tk["ty"], tk["uid"], tk.get("target") or "*", int(tk.get("evk", 0))],
                            "run": gen, "t": r["t"], "seq": r["seq"]})
            elif tk["k"] == "cancel":
                out.append({"e": "cmd", "cmd": ["cancel"], "run": gen, "t": r["t"], "seq": r["seq"]})
        elif e == "cmd":
            c = r["cmd"]
            if c[0] == "advance":
                # in the server time passes for the stack's own timers too: for the engine it is a sleep (its timers fire on the way)
                if int(c[1]) > r["t"]:
                    out.append(dict(r, run=gen, cmd=["sleep", int(c[1]) - r["t"]]))
            elif c[0] == "release":
                out.append(dict(r, run=gen, cmd=[c[0]]))
    return out


_EXT_UIDS = ("x", "wake")
_ISENT = set()       # uids of ticks a step sent to its own run (send_int lines seen so far in the trace being projected)


def server_lines(trace, restart):
    """The lines of a recorded server execution that TraceServer.tla consumes."""
    _ISENT.clear()
    out = []
    ends_next = False
    i = 0
    n = len(trace)
    while i < n:
        r = trace[i]
        e, t = r["e"], r["t"]
        if e == "launch_begin":
            if r["restart"]:
                # what _on_server_start did, up to the `launched` line: a resumed loop and/or a finalising status write
                j = i + 1
                resumed, final = False, ""
                while j < n and trace[j]["e"] != "launched":
                    if trace[j]["e"] == "loop_start":
                        resumed = True
                    if trace[j]["e"] == "status_write" and trace[j].get("ok") and trace[j]["status"] in ("completed", "failed", "cancelled"):
                        final = trace[j]["status"]
                    j += 1
                out.append({"e": "restart", "t": t, "resumed": resumed, "finalized": final})
                k = i + 1
                while k < j:               # keep the loop_start / engine lines of the resumed loop, drop the finalising write
                    if not (trace[k]["e"] == "status_write" and trace[k]["status"] in ("completed", "failed", "cancelled")):
                        i_line = _line(trace[k])
                        if i_line is not None:
                            out.append(i_line)
                    k += 1
                i = j
                continue
        ln = _line(r)
        if ln is not None:
            out.append(ln)
        i += 1
    if len({r.get("rid") for r in trace if r["e"] == "loop_start"}) > 1:
        return None                # more than one run in this server: ServerStack.tla describes the stack around ONE run
    # the `ends` flag of a persist line comes from the tick line before it
    last_ends = False
    last_timers = False
    for ln in out:
        if ln["e"] == "tick":
            if ln["cause"] == "timer" and ln.pop("retry", False) and not last_timers:
                ln["cause"] = "work"           # a retry without delay is queued by the failing tick's own command
            ln.pop("retry", None)
            last_timers = ln["timers"]
            last_ends = ln.pop("ends")
        elif ln["e"] == "persist":
            ln["ends"] = bool(last_ends)
            last_ends = False
    return out


def _line(r):
    e, t = r["e"], r["t"]
    if e == "row_write":
        return {"e": "row_write", "t": t, "ok": True}
    if e == "status_write":
        if r.get("initial"):
            return {"e": "row_write", "t": t, "ok": False}
        return {"e": "status_write", "t": t, "status": r["status"], "ok": bool(r["ok"]), "idle": bool(r.get("idle")),
                "clears_idle": bool(r.get("clears_idle"))}
    if e == "loop_start":
        return {"e": "loop_start", "t": t, "gen": r["gen"]}
    if e == "loop_exit":
        return {"e": "loop_exit", "t": t, "gen": r["gen"]}
    if e == "send_int":
        _ISENT.add(str(r["tick"].get("uid", "")))
        return {"e": "isend", "t": t}
    if e == "tick":
        tk = r["tick"]
        ext = tk["k"] == "cancel" or (tk["k"] == "add" and tk.get("att", -1) == -1 and str(tk.get("uid", "")).startswith(_EXT_UIDS)
                                      and "." not in str(tk.get("uid", "")))
        eng = r.get("eng") or {"work": True, "timers": False, "running": True}
        imail = tk["k"] == "add" and tk.get("att", -1) == -1 and str(tk.get("uid", "")) in _ISENT
        if imail:
            _ISENT.discard(str(tk.get("uid", "")))
        cause = "mail" if ext else "imail" if imail else ("idlecheck" if tk["k"] == "idlecheck" else (
            "timer" if tk["k"] in ("wtimeout", "timeout") or (tk["k"] == "add" and tk.get("att", -1) > 0) else "work"))
        return {"e": "tick", "t": t, "work": bool(eng["work"]), "timers": bool(eng["timers"]), "cause": cause,
                # the reducer ends the run on this tick (is_running cleared, or a halt command: cancel / workflow timeout)
                "ends": (not eng["running"]) or tk["k"] in ("cancel", "timeout"),
                "retry": tk["k"] == "add" and tk.get("att", -1) > 0}
    if e == "persist_tick":
        return {"e": "persist", "t": t, "n": r["n"]}
    if e == "release_fire":
        return {"e": "release_fire", "t": t}
    if e == "release_done":
        return {"e": "release_done", "t": t, "released": bool(r["released"])}
    if e == "send_checked":
        return {"e": "send_check", "t": t}
    if e == "ext_send_begin":
        return {"e": "send_begin", "t": t}
    if e == "ext_send_end":
        return {"e": "send_end", "t": t}
    if e == "ensure_begin":
        return {"e": "ensure", "t": t, "active": bool(r["active"])}
    if e == "crash":
        return {"e": "crash", "t": t}
    if e == "launched":
        return {"e": "launched", "t": t}
    if e == "cmd" and r["cmd"][0] == "cancel":
        return {"e": "cancel", "t": t}
    if e == "cmd" and r["cmd"][0] == "advance":
        return {"e": "advance", "t": t, "to": int(r["cmd"][1])}
    return None


class ServerSystem:
    _current = None

    def __init__(self, prog, db_path=None, idle_timeout=10.0, backoff=(0.5, 3.0), crash_after_tick=None,
                 status_faults=0, start_time=1000.0, run_no_base=0, single_connection=False, initial_faults=0):
        self.prog = prog
        self.loop = vloop.new_loop(start=start_time, wall_epoch=100000.0)
        self._clocks = vloop.patched_clocks(self.loop)
        self._clocks.__enter__()
        _VirtualDatetime._loop = self.loop
        IR.datetime = _VirtualDatetime
        SR.datetime = _VirtualDatetime
        self.t0 = self.loop.time()
        self.rig = Rig()
        self.rig.loop = self.loop
        self.rig.log = self.log
        self.rig.wid_of = self._wid_of
        self.trace = []
        self.seq = 0
        self.run_no = run_no_base + 1
        self.observe_c11 = False
        self.crash_after_tick = crash_after_tick
        self.crashed = False
        self.nticks = 0
        self.status_faults = status_faults
        self.initial_faults = initial_faults      # transient failures of the FIRST write of a handler row (store.update)
        self._in_status = 0
        self.ngen = 0
        self._start_tasks = {}
        self.handlers = {}          # handler_id -> run_id
        self.ext_sent = 0
        self.db_path = db_path
        if db_path:
            self.store = SqliteWorkflowStore(db_path, single_connection=single_connection) if single_connection \
                else SqliteWorkflowStore(db_path)
        else:
            self.store = MemoryWorkflowStore()
        self._wrap_store()
        S.basic_runtime = en.RecordingRuntime(self)          # innermost runtime of the stack built below
        self.server = WorkflowServer(workflow_store=self.store, idle_timeout=idle_timeout,
                                     persistence_backoff=list(backoff))
        self.W = compile_program(prog, self.rig)
        self.wf = self.W(timeout=prog.get("timeout"), disable_validation=not prog.get("validation", True))
        self.server.add_workflow("wf", self.wf)
        self.idle = self.server._runtime._decorated                  # IdleReleaseDecorator
        self.persist = self.idle._decorated                          # PersistenceDecorator
        self.basic = S.basic_runtime
        self._hook_stack()

    # ------------------------------------------------------------------ hooks on the real stack objects (harness-side
    # wrappers, nothing in /repo changes): one line per decision point of ServerStack.tla
    def _hook_stack(self):
        idle, basic, sysm = self.idle, self.basic, self
        o_release, o_abort, o_ensure = idle._release_idle_handler, idle._abort_inner_run, idle._ensure_active_run_locked
        o_runwf = basic.run_workflow

        async def release(run_id):
            sysm.log({"e": "release_fire", "rid": run_id, "held": bool(getattr(sysm, "hold_release_read", False))})
            sysm._aborted = False
            sysm._in_release = True
            try:
                await o_release(run_id)
            finally:
                sysm._in_release = False
                sysm.log({"e": "release_done", "rid": run_id, "released": bool(sysm._aborted)})

        # a store with real I/O: the reply to the release task's read of the handler row can be held back by the driver
        # (hold_release_read) -- the task then sits between its read and its decision, holding the reload lock
        o_query = sysm.store.query

        async def query(q):
            res = await o_query(q)
            if getattr(sysm, "_in_release", False) and getattr(sysm, "hold_release_read", False):
                sysm.hold_release_read = False
                sysm.release_gate = sysm.loop.create_future()
                sysm.log({"e": "release_read_held"})
                await sysm.release_gate
            return res
        sysm.store.query = query

        def abort(run_id):
            sysm._aborted = True
            sysm.log({"e": "abort", "rid": run_id})
            return o_abort(run_id)

        async def ensure(run_id):
            was_active = run_id in idle._active_run_ids
            sysm.log({"e": "ensure_begin", "rid": run_id, "active": bool(was_active)})
            try:
                await o_ensure(run_id)
            finally:
                sysm.log({"e": "ensure_done", "rid": run_id})

        def run_workflow(run_id, *a, **k):
            ext = o_runwf(run_id, *a, **k)
            sysm.ngen += 1
            g = sysm.ngen
            sysm.log({"e": "loop_start", "gen": g, "rid": run_id})
            try:
                import time as _t
                init_state = a[1] if len(a) > 1 else k.get("init_state")
                start_event = a[2] if len(a) > 2 else k.get("start_event")
                sysm.log({"e": "run_init", "gen": g, "state": en.p_state(init_state), "now": en.ms(_t.time()),
                          "resumed": start_event is None})
            except Exception as ex:  # noqa: BLE001
                sysm.log({"e": "run_init_error", "err": type(ex).__name__})
            q = basic._queues.get(run_id)

            def done(t, g=g):
                how = "cancelled" if t.cancelled() else (type(t.exception()).__name__ if t.exception() else type(t.result()).__name__)
                if not sysm.crashed:
                    sysm.log({"e": "loop_exit", "gen": g, "how": how})
            if q is not None and hasattr(q, "complete"):
                q.complete.add_done_callback(done)
            return ext

        idle._release_idle_handler, idle._abort_inner_run, idle._ensure_active_run_locked = release, abort, ensure
        basic.run_workflow = run_workflow
        # rebuilding a run from its persisted ticks (server start-up and on-demand reload both go through this call):
        # remember for which runs the stored history could not be replayed at all
        self.rebuild_errors = {}
        o_cft = self.persist.context_from_ticks

        async def context_from_ticks(workflow, run_id, *a, **k):
            try:
                return await o_cft(workflow, run_id, *a, **k)
            except Exception as e:
                sysm.rebuild_errors[run_id] = "%s: %s" % (type(e).__name__, str(e)[:120])
                raise
        self.persist.context_from_ticks = context_from_ticks
        self._aborted = False
        # the external adapter's send_event (sends and cancels both go through it)
        from llama_agents.server._runtime import idle_release_runtime as IRM
        if not getattr(IRM.IdleReleaseExternalRunAdapter, "_verif_wrapped", False):
            o_send = IRM.IdleReleaseExternalRunAdapter.send_event

            async def send_event(adapter, tick):
                cur = ServerSystem._current
                if cur is not None:
                    cur.log({"e": "ext_send_begin", "tick": en.p_tick(tick)["k"], "ptick": en.p_tick(tick)})
                try:
                    await o_send(adapter, tick)
                finally:
                    if cur is not None and not cur.crashed:
                        cur.log({"e": "ext_send_end", "ptick": en.p_tick(tick)})
            IRM.IdleReleaseExternalRunAdapter.send_event = send_event
            IRM.IdleReleaseExternalRunAdapter._verif_wrapped = True
        ServerSystem._current = self

    def _register_trace(self):
        restart = self.run_no > 1
        key = self.db_path
        if key is None:
            _anon[0] += 1
            key = "mem%d" % _anon[0]
        lines = server_lines(self.trace, restart)
        if lines is None:
            return
        ENGINE_TRACES.append((self.prog, engine_view(self.trace)))
        rec = TRACES.get(key)
        if rec is None and restart:
            return          # the stopped process's part was not recorded as a trace (several runs in one server): nothing to continue
        if rec is None or not restart:
            if rec is not None:              # the same path reused for a new history
                _anon[0] += 1
                TRACES["%s#%d" % (key, _anon[0])] = TRACES.pop(key)
            TRACES[key] = {"idle_timeout_ms": int(round(self.idle._idle_timeout * 1000)),
                           "backoffs_ms": [int(round(b * 1000)) for b in self.server._runtime._persistence_backoff],
                           "lines": lines, "nticks_base": 0}
        else:
            # a restarted process on the same database: its persisted-tick counter starts again, the log does not
            base = max([ln["n"] for ln in rec["lines"] if ln["e"] == "persist"] or [0])
            t_base = max([ln["t"] for ln in rec["lines"]] or [0])
            for ln in lines:
                ln["t"] += t_base              # the restarted process's clock continues where the stopped one ended
                if ln["e"] == "advance":
                    ln["to"] += t_base
                if ln["e"] == "persist":
                    ln["n"] += base
                if ln["e"] == "loop_start" or ln["e"] == "loop_exit":
                    ln["gen"] += rec.get("gens", 0)
            rec["lines"] += lines
        TRACES[key]["gens"] = TRACES[key].get("gens", 0) + self.ngen
        if any(r["e"] == "release_read_held" for r in self.trace):
            TRACES[key]["held_read"] = True

    # ------------------------------------------------------------------ recording
    def now_ms(self):
        return en.ms(self.loop.time() - self.t0)

    def log(self, rec):
        ct = getattr(self, "_cur_tick", None)
        if ct is not None:
            if rec.get("e") == "pub":
                ct["pubs"].append(rec["p"])       # the publishes of a tick's commands (store writes lie in between here)
            elif rec.get("e") in ("tick", "wait", "loop_exit", "loop_start", "crash"):
                self._cur_tick = None
        rec["seq"] = self.seq
        rec["t"] = self.now_ms()
        rec["run"] = self.run_no
        self.seq += 1
        self.trace.append(rec)

    def live_now(self):
        return {s: int(self.rig.live.get(s, 0)) for s in sorted(self.prog["steps"])}

    def _wid_of(self, step, ev):
        for r in en._RUNNERS.values():
            w = r.state.workers.get(step)
            for ip in (w.in_progress if w is not None else ()):
                if ip.event is ev:
                    return ip.worker_id
        return -1

    def queued_now(self):
        out = {s: 0 for s in sorted(self.prog["steps"])}
        for r in en._RUNNERS.values():
            for s, w in r.state.workers.items():
                out[s] = max(out[s], len(w.queue))
        return out

    def on_tick(self, adapter, tick):
        rec = {"e": "tick", "tick": en.p_tick(tick), "rid": adapter.run_id}
        runner = en._RUNNERS.get(adapter.run_id)
        if runner is not None:
            # summary of the control loop after the reducer ran on this tick (ServerStack.tla: eng)
            st = runner.state
            rec["eng"] = {"work": bool(any(w.queue or w.in_progress for w in st.workers.values()) or len(runner.tick_buffer) > 0),
                          "timers": len(runner.scheduled_wakeups) > 0, "running": bool(st.is_running)}
            # the same fields the engine driver records, so that the loop inside the server is validated against Engine.tla too
            import time as _t
            rec["now"] = en.ms(getattr(self, "last_now", _t.time()))
            rec["state"] = en.p_state(st)
            rec["wake_abs"] = sorted([[en.ms(at), en.p_tick(tk)["k"]] for (at, _s, tk) in runner.scheduled_wakeups])
            rec["pubs"] = []
        self.log(rec)
        if "pubs" in rec:
            self._cur_tick = rec

    def _wrap_store(self):
        st = self.store
        o_tick, o_status, o_event = st.append_tick, st.update_handler_status, st.append_event

        async def append_tick(run_id, tick_data):
            await o_tick(run_id, tick_data)
            self.nticks += 1
            self.log({"e": "persist_tick", "n": self.nticks, "rid": run_id})
            if self.crash_after_tick is not None and self.nticks >= self.crash_after_tick:
                self.crashed = True
                self.log({"e": "crash"})
                await self.loop.create_future()          # the process stops here: nothing after this ever runs

        async def update_handler_status(run_id, **kw):
            terminal = kw.get("status") in ("completed", "failed", "cancelled")
            if terminal and self.status_faults > 0:
                self.status_faults -= 1
                self.log({"e": "status_write", "status": kw.get("status") or "", "ok": False})
                raise StoreFault("injected store write failure")
            self._in_status += 1
            try:
                await o_status(run_id, **kw)
            finally:
                self._in_status -= 1
            self.log({"e": "status_write", "status": kw.get("status") or "", "ok": True,
                      "idle": ("idle_since" in kw and kw["idle_since"] is not None),
                      "clears_idle": ("idle_since" in kw and kw["idle_since"] is None)})

        async def append_event(run_id, envelope):
            names = [getattr(envelope, "type", "")] + list(getattr(envelope, "types", None) or [])
            if getattr(self, "event_faults", 0) > 0 and "StopEvent" in names:
                # a transient failure of the store exactly when the run's terminal event is recorded
                self.event_faults -= 1
                self.log({"e": "store_event_failed", "rid": run_id})
                raise StoreFault("injected store write failure (append_event)")
            await o_event(run_id, envelope)
            self.log({"e": "store_event", "rid": run_id})

        st.append_tick, st.update_handler_status, st.append_event = append_tick, update_handler_status, append_event
        o_update = st.update

        async def update(handler):
            if self.initial_faults > 0 and handler.status == "running" and handler.result is None:
                self.initial_faults -= 1
                self.log({"e": "status_write", "status": "running", "ok": False, "initial": True})
                raise StoreFault("injected store write failure (initial handler row)")
            await o_update(handler)
            if not self._in_status:
                self.log({"e": "row_write", "status": handler.status, "ok": True})
        st.update = update

    # ------------------------------------------------------------------ driving
    def _run(self, coro):
        """Run a coroutine from the (synchronous) driver until the loop is quiescent; returns the task."""
        box = {}

        def go():
            box["t"] = self.loop.create_task(coro)
        self.loop.call_soon(go)
        self.loop.quiesce()
        return box["t"]

    def launch(self):
        self.log({"e": "launch_begin", "restart": self.run_no > 1})
        t = self._run(self.server.start())
        self.log({"e": "launched", "ok": t.done() and t.exception() is None if t.done() else False})

    def start_handler(self, hid="h1", uid="s0"):
        self.log({"e": "cmd", "cmd": ["start", hid, uid]})
        t = self._run(self.server._service.start_workflow(self.wf, hid, start_event=E.TYPES["Start"](uid=uid)))
        if t.done() and t.exception() is None:
            self.handlers[hid] = t.result().run_id
            return t.result().run_id
        if not t.done():
            # start_workflow is still inside its own retry/back-off (initial handler write failed): it finishes when time passes

            def _late(tt, hid=hid):
                if tt.exception() is None:
                    self.handlers[hid] = tt.result().run_id
            t.add_done_callback(_late)
        self.log({"e": "start_failed", "err": repr(t.exception()) if t.done() else "pending"})
        return None

    def send(self, hid, ty, uid, k=0, target=None):
        self.log({"e": "cmd", "cmd": ["send", hid, ty, uid, str(k)]})
        ev = E.TYPES[ty](uid=uid, k=k)
        t = self._run(self.server._service.send_event(hid, ev, step=target))
        ok = t.done() and t.exception() is None
        self.log({"e": "send_ext", "hid": hid, "ty": ty, "uid": uid, "ok": ok,
                  "err": "" if ok else (type(t.exception()).__name__ if t.done() else "pending")})
        return t

    def open_release_gate(self):
        g = getattr(self, "release_gate", None)
        if g is not None and not g.done():
            g.set_result(None)
        self.loop.quiesce()

    def settle_send(self, t, hid, ty, uid):
        """A send that was still waiting (for the reload lock) when send() returned: log how it ended."""
        ok = t.done() and t.exception() is None
        self.log({"e": "send_ext", "hid": hid, "ty": ty, "uid": uid, "ok": ok, "settled": True,
                  "err": "" if ok else (type(t.exception()).__name__ if t.done() else "pending")})
        return ok

    def send_checked(self, hid):
        """First half of _WorkflowService.send_event: the handler is resolved (and refused if it is terminal).  The awaits
        between this check and the adapter's send (store read, reload lock) are where a run can finish."""
        self.log({"e": "cmd", "cmd": ["send_checked", hid]})
        t = self._run(self.server._service.resolve_handler(hid))
        ok = t.done() and t.exception() is None
        if ok:
            self.log({"e": "send_checked", "hid": hid})
        return t.result() if ok else None

    def send_after_check(self, handler_data, ty, uid, k=0, target=None):
        """Second half of _WorkflowService.send_event for a handler resolved earlier (same statements as the service)."""
        from workflows.handler import WorkflowHandler
        self.log({"e": "cmd", "cmd": ["send_after_check", handler_data.handler_id, ty, uid, str(k)]})
        ev = E.TYPES[ty](uid=uid, k=k)
        rt = self.server._service._runtime
        workflow = rt.get_workflow(handler_data.workflow_name)

        async def go():
            handler = WorkflowHandler(workflow, rt.get_external_adapter(handler_data.run_id))
            await handler.send_event(ev, step=target)
        t = self._run(go())
        ok = t.done() and t.exception() is None
        self.log({"e": "send_ext", "hid": handler_data.handler_id, "ty": ty, "uid": uid, "ok": ok,
                  "err": "" if ok else (type(t.exception()).__name__ if t.done() else "pending")})
        return t

    def cancel(self, hid):
        self.log({"e": "cmd", "cmd": ["cancel", hid]})
        return self._run(self.server._service.cancel_handler(hid))

    def release(self, key):
        self.log({"e": "cmd", "cmd": ["release"] + [str(x) for x in key]})
        f = self.rig.gates.get(tuple(key))
        if f is not None and not f.done():
            f.set_result(None)
        self.loop.quiesce()

    def advance_to_ms(self, t_ms):
        self.log({"e": "cmd", "cmd": ["advance", str(t_ms)]})
        self.loop.advance_to(self.t0 + t_ms / 1000.0)

    def advance_next(self):
        nt = self.loop.next_timer()
        if nt is None:
            return False
        self.advance_to_ms(en.ms(nt - self.t0))
        return True

    def drain(self, max_rounds=300):
        n = 0
        while n < max_rounds and not self.crashed:
            g = self.rig.open_gates()
            if not g:
                break
            pick = getattr(self, "pick", None)
            self.release(pick(g) if pick else g[0])
            n += 1

    def run_to_end(self, horizon_ms=60000, rounds=60):
        """Let every body finish, then fire timers (retry delays, back-off sleeps, idle release) up to the horizon."""
        for _ in range(rounds):
            self.drain()
            if self.crashed:
                return
            nt = self.loop.next_timer()
            if nt is None or en.ms(nt - self.t0) > horizon_ms:
                return
            self.advance_to_ms(en.ms(nt - self.t0))

    # ------------------------------------------------------------------ observation
    def handler_row(self, hid):
        t = self._run(self.store.query(HandlerQuery(handler_id_in=[hid])))
        rows = t.result() if t.done() and t.exception() is None else []
        if not rows:
            return {"exists": False, "status": "", "idle": False, "has_result": False, "result": "", "error": ""}
        h = rows[0]
        res = ""
        if h.result is not None:
            try:
                res = str(getattr(h.result, "result", "")) if type(h.result).__name__ == "StopEvent" else type(h.result).__name__
            except Exception:  # noqa: BLE001
                res = "?"
        return {"exists": True, "status": h.status, "idle": h.idle_since is not None, "has_result": h.result is not None,
                "result": res, "error": (h.error or "")[:80]}

    def live_loops(self, hid):
        rid = self.handlers.get(hid)
        q = self.basic._queues.get(rid) if rid else None
        return int(q is not None and hasattr(q, "complete") and not q.complete.done())

    def active(self, hid):
        return self.handlers.get(hid) in self.idle._active_run_ids

    def store_keys(self, hid):
        rid = self.handlers.get(hid)
        if rid is None:
            return []
        try:
            ss = self.store.create_state_store(rid)
            t = self._run(ss.get_state())
            st = t.result()
            data = st.model_dump() if hasattr(st, "model_dump") else dict(st)
            inner = data.get("_data", data)
            return sorted(k for k in inner if str(k).startswith("k_"))
        except Exception as ex:  # noqa: BLE001
            return ["<error:%s>" % type(ex).__name__]

    def ticks(self, hid):
        rid = self.handlers.get(hid)
        t = self._run(self.store.get_ticks(rid)) if hasattr(self.store, "get_ticks") else None
        return t.result() if t is not None and t.done() and t.exception() is None else []

    def snapshot_obs(self, hid, tag):
        row = self.handler_row(hid)
        self.log({"e": "obs", "tag": tag, "hid": hid, "row": row, "live_loops": self.live_loops(hid),
                  "active": bool(self.active(hid)), "open": len(self.rig.open_gates()),
                  "timers": self.loop.next_timer() is not None})
        return row

    def close(self):
        try:
            self._register_trace()
        except Exception:  # noqa: BLE001  (evidence only)
            pass
        try:
            for k in self.rig.open_gates():
                self.rig.gates[k].cancel()
            vloop.close_loop(self.loop)
        finally:
            self._clocks.__exit__(None, None, None)
            en._RUNNERS.clear()


# ---------------------------------------------------------------------------------------------- C13 / C14 cases

def _picker(order, seed):
    import random
    rng = random.Random(seed)
    if order == "fifo":
        return None
    if order == "lifo":
        return lambda g: g[-1]
    return lambda g: rng.choice(sorted(g))


def _final(s, hid):
    row = s.handler_row(hid)
    stuck = row["status"] == "running" and not s.rig.open_gates() and s.loop.next_timer() is None
    return {"status": row["status"], "result": row["result"], "has_result": row["has_result"], "error": row["error"] != "",
            "store": s.store_keys(hid), "stuck": bool(stuck), "idle": row["idle"], "live_loops": s.live_loops(hid),
            "rebuild_error": s.handlers.get(hid) in getattr(s, "rebuild_errors", {})}


def crash_cases(prog, workdir, order="fifo", seed=0, ext=(), horizon_ms=60000, idle_timeout=1000.0, ks=None,
                cancel_after=None):
    """Reference run to the end, then for every k: stop the process right after the k-th persisted tick, start a
    brand-new server on the same SQLite file, let PersistenceDecorator._on_server_start resume, run to the end."""
    import os
    cases = []
    db = os.path.join(str(workdir), "ref_%s_%d.db" % (order, seed))
    s = ServerSystem(prog, db_path=db, idle_timeout=idle_timeout)
    try:
        s.pick = _picker(order, seed)
        s.launch()
        s.start_handler("h1")
        for (ty, uid, k) in ext:
            s.drain()
            s.send("h1", ty, uid, k)
        if cancel_after is not None:
            for _ in range(cancel_after):
                g = s.rig.open_gates()
                if g:
                    s.release(g[0])
            s.cancel("h1")
        s.run_to_end(horizon_ms)
        ref = _final(s, "h1")
        nticks = s.nticks
        kinds = [r["tick"]["k"] for r in s.trace if r["e"] == "tick"]
    finally:
        s.close()
    if callable(ks):
        ks = ks(kinds)
    for k in (range(1, nticks + 1) if ks is None else [x for x in ks if x <= nticks]):
        db = os.path.join(str(workdir), "crash_%s_%d_%d.db" % (order, seed, k))
        s = ServerSystem(prog, db_path=db, idle_timeout=idle_timeout, crash_after_tick=k)
        try:
            s.pick = _picker(order, seed)
            s.launch()
            s.start_handler("h1")
            for (ty, uid, kk) in ext:
                s.drain()
                if not s.crashed:
                    s.send("h1", ty, uid, kk)
            if cancel_after is not None and not s.crashed:
                for _ in range(cancel_after):
                    g = s.rig.open_gates()
                    if g and not s.crashed:
                        s.release(g[0])
                if not s.crashed:
                    s.cancel("h1")
            s.run_to_end(horizon_ms)
            hs = dict(s.handlers)
            last = [r["tick"] for r in s.trace if r["e"] == "tick"][-1]
            sent = [r["uid"] for r in s.trace if r["e"] == "send_ext" and r["ok"]]
            pending_retry = any(tk.__class__.__name__ == "TickAddEvent" for r_ in en._RUNNERS.values()
                                for (_a, _s, tk) in r_.scheduled_wakeups)
            # a due retry already moved from the timer heap into the runner's in-memory tick buffer (not yet a persisted tick)
            buffered_retry = any(tk.__class__.__name__ == "TickAddEvent" and (getattr(tk, "attempts", None) or 0) > 0
                                 for r_ in en._RUNNERS.values() for tk in r_.tick_buffer)
            crashed = s.crashed
            q = s.basic._queues.get(hs.get("h1"))
            mailbox = q.receive_queue.qsize() if q is not None else 0
        finally:
            s.close()
        if not crashed:
            continue
        s2 = ServerSystem(prog, db_path=db, idle_timeout=idle_timeout, run_no_base=1)
        try:
            s2.pick = _picker(order, seed)
            s2.handlers = hs
            s2.launch()
            # external inputs the crashed process had not accepted yet are sent again by the caller
            for (ty, uid, kk) in ext:
                if uid not in sent:
                    s2.drain()
                    s2.send("h1", ty, uid, kk)
            s2.run_to_end(horizon_ms)
            row = s2.handler_row("h1")
            idle_marked = row["status"] == "running" and row["idle"]
            if idle_marked:
                # a handler stored as idle is not resumed at start-up but on demand: an (unaccepted) event reloads it
                s2.send("h1", "D", "wake", 0)
                s2.run_to_end(horizon_ms)
            res = _final(s2, "h1")
            res["idle_marked_at_restart"] = bool(idle_marked)
            reran = any(r["e"] == "step_start" for r in s2.trace)
        finally:
            s2.close()
        ends = last["k"] in ("cancel", "timeout") or (
            last["k"] == "result" and any(x["r"] == "ret" and x["ty"] == "Stop" for x in last["res"]))
        cases.append({"e": "case", "k": k, "ref": ref, "res": res, "reran": bool(reran), "last_tick": last["k"],
                      "prefix_ends_run": bool(ends), "pending_retry": bool(pending_retry), "buffered_retry": bool(buffered_retry),
                      "mailbox": int(mailbox),
                      "last_has_output": last["k"] == "result" and any(
                          x["r"] == "ret" and x["ty"] not in ("None", "Stop", "Junk") for x in last["res"]),
                      "run": 1, "seq": k, "t": 0})
    return cases


def double_crash_cases(prog, workdir, k1s, k2s, order="fifo", seed=0, horizon_ms=60000, idle_timeout=1000.0):
    """Two process stops in a row: the process stops after its k1-th persisted tick; the restarted process (same
    database) resumes the run and stops after ITS k2-th persisted tick; a third process restarts.  Same record shape as
    crash_cases (k = 1000 * k1 + k2)."""
    cases = []
    db = os.path.join(str(workdir), "ref2_%s_%d.db" % (order, seed))
    s = ServerSystem(prog, db_path=db, idle_timeout=idle_timeout)
    try:
        s.pick = _picker(order, seed)
        s.launch()
        s.start_handler("h1")
        s.run_to_end(horizon_ms)
        ref = _final(s, "h1")
    finally:
        s.close()
    for k1 in k1s:
        for k2 in k2s:
            db = os.path.join(str(workdir), "crash2_%s_%d_%d_%d.db" % (order, seed, k1, k2))
            s = ServerSystem(prog, db_path=db, idle_timeout=idle_timeout, crash_after_tick=k1)
            try:
                s.pick = _picker(order, seed)
                s.launch()
                s.start_handler("h1")
                s.run_to_end(horizon_ms)
                hs = dict(s.handlers)
                crashed1 = s.crashed
                # cause feature: does the start-up rewind of the process that resumes from here change the layout of the
                # state (worker slots of running work, queue order)?  Its ticks are then recorded against the rewound layout.
                reshuffled = False
                try:
                    import time as _t
                    for r_ in en._RUNNERS.values():
                        before = en.p_state(r_.state)
                        after = en.p_state(en.CL.rewind_in_progress(r_.state.deepcopy(), _t.time())[0])
                        for st_ in before["steps"]:
                            b_, a_ = before["steps"][st_], after["steps"][st_]
                            if [(x["uid"], x["wid"]) for x in b_["ip"]] != [(x["uid"], x["wid"]) for x in a_["ip"]] or \
                                    [x["uid"] for x in b_["queue"]] != [x["uid"] for x in a_["queue"]]:
                                reshuffled = True
                except Exception:  # noqa: BLE001
                    reshuffled = False
            finally:
                s.close()
            if not crashed1:
                continue
            s2 = ServerSystem(prog, db_path=db, idle_timeout=idle_timeout, run_no_base=1, crash_after_tick=k2)
            try:
                s2.pick = _picker(order, seed)
                s2.handlers = hs
                s2.launch()
                s2.run_to_end(horizon_ms)
                if not s2.crashed:
                    row2 = s2.handler_row("h1")
                    if row2["status"] == "running" and row2["idle"]:
                        # a handler stored as idle is reloaded on demand, not at start-up
                        s2.send("h1", "D", "wake", 0)
                        s2.run_to_end(horizon_ms)
                crashed2 = s2.crashed
                last = ([r["tick"] for r in s2.trace if r["e"] == "tick"] or [{"k": "none"}])[-1]
                pending_retry = any(tk.__class__.__name__ == "TickAddEvent" for r_ in en._RUNNERS.values()
                                    for (_a, _s, tk) in r_.scheduled_wakeups)
                buffered_retry = any(tk.__class__.__name__ == "TickAddEvent" and (getattr(tk, "attempts", None) or 0) > 0
                                     for r_ in en._RUNNERS.values() for tk in r_.tick_buffer)
                q = s2.basic._queues.get(hs.get("h1"))
                mailbox = q.receive_queue.qsize() if q is not None else 0
            finally:
                s2.close()
            if not crashed2:
                continue
            s3 = ServerSystem(prog, db_path=db, idle_timeout=idle_timeout, run_no_base=2)
            try:
                s3.pick = _picker(order, seed)
                s3.handlers = hs
                s3.launch()
                s3.run_to_end(horizon_ms)
                row = s3.handler_row("h1")
                idle_marked = row["status"] == "running" and row["idle"]
                if idle_marked:
                    s3.send("h1", "D", "wake", 0)
                    s3.run_to_end(horizon_ms)
                res = _final(s3, "h1")
                res["idle_marked_at_restart"] = bool(idle_marked)
                reran = any(r["e"] == "step_start" for r in s3.trace)
            finally:
                s3.close()
            ends = last["k"] in ("cancel", "timeout") or (
                last["k"] == "result" and any(x["r"] == "ret" and x["ty"] == "Stop" for x in last.get("res", [])))
            cases.append({"e": "case", "k": 1000 * k1 + k2, "ref": ref, "res": res, "reran": bool(reran), "last_tick": last["k"],
                          "resume_reshuffled": bool(reshuffled),
                          "prefix_ends_run": bool(ends), "pending_retry": bool(pending_retry), "buffered_retry": bool(buffered_retry),
                          "mailbox": int(mailbox),
                          "last_has_output": last["k"] == "result" and any(
                              x["r"] == "ret" and x["ty"] not in ("None", "Stop", "Junk") for x in last.get("res", [])),
                          "run": 1, "seq": 1000 * k1 + k2, "t": 0})
    return cases


def two_handler_restart_cases(prog, workdir, finished_first=True, horizon_ms=60000, idle_timeout=1000.0, corrupt_other=False):
    """Two runs in one server: the process stops right after the tick that ends ONE of them was persisted (its status
    write never happened) while the OTHER is in the middle of its run.  The restarted server must finalise the first
    and resume the second.  Returns one case record per handler (same shape as crash_cases)."""
    tag = ("ff" if finished_first else "uf") + ("_c" if corrupt_other else "")
    fin, unf = ("h1", "h2") if finished_first else ("h2", "h1")
    uids = {"h1": "s0", "h2": "t0"}

    def drive_finished(s):
        """release only the gates of the run that is to finish, until none is left"""
        for _ in range(40):
            if s.crashed:
                return
            g = [k for k in s.rig.open_gates() if str(k[1]).startswith(uids[fin])]
            if not g:
                return
            s.release(g[0])

    # reference: both runs uninterrupted
    db = os.path.join(str(workdir), "two_ref_%s.db" % tag)
    s = ServerSystem(prog, db_path=db, idle_timeout=idle_timeout)
    try:
        s.launch()
        s.start_handler("h1", uids["h1"])
        s.start_handler("h2", uids["h2"])
        drive_finished(s)
        n_fin = s.nticks                     # the tick that ended `fin` is the last one persisted so far
        s.run_to_end(horizon_ms)
        ref = {h: _final(s, h) for h in ("h1", "h2")}
    finally:
        s.close()
    db = os.path.join(str(workdir), "two_crash_%s.db" % tag)
    s = ServerSystem(prog, db_path=db, idle_timeout=idle_timeout, crash_after_tick=n_fin)
    try:
        s.launch()
        s.start_handler("h1", uids["h1"])
        s.start_handler("h2", uids["h2"])
        drive_finished(s)
        hs = dict(s.handlers)
        crashed = s.crashed
        last = ([r["tick"] for r in s.trace if r["e"] == "tick"] or [{"k": "none"}])[-1]
    finally:
        s.close()
    if not crashed:
        return []
    if corrupt_other:
        # the OTHER run's tick log cannot be replayed any more (ticks written by code that has since changed): the restart
        # must still deal with the run next to it
        import sqlite3 as _sq
        c_ = _sq.connect(db)
        try:
            c_.execute("UPDATE ticks SET tick_data = ? WHERE run_id = ?", ('{"type": "TickOfAnEarlierRelease", "x": 1}', hs[unf]))
            c_.commit()
        finally:
            c_.close()
    s2 = ServerSystem(prog, db_path=db, idle_timeout=idle_timeout, run_no_base=1)
    try:
        s2.handlers = hs
        s2.launch()
        s2.run_to_end(horizon_ms)
        for h in ("h1", "h2"):
            row = s2.handler_row(h)
            if row["status"] == "running" and row["idle"]:
                s2.send(h, "D", "wake", 0)
                s2.run_to_end(horizon_ms)
        res = {h: _final(s2, h) for h in ("h1", "h2")}
        started = {r["uid"][:2] for r in s2.trace if r["e"] == "step_start"}
    finally:
        s2.close()
    ends = last["k"] == "result" and any(x["r"] == "ret" and x["ty"] == "Stop" for x in last.get("res", []))
    out = []
    for h in ((fin,) if corrupt_other else ("h1", "h2")):
        res[h]["idle_marked_at_restart"] = False
        out.append({"e": "case", "k": n_fin, "ref": ref[h], "res": res[h], "reran": uids[h] in started,
                    "last_tick": last["k"] if h == fin else "other_run", "prefix_ends_run": bool(ends) if h == fin else False,
                    "pending_retry": False, "buffered_retry": False, "mailbox": 0, "last_has_output": False,
                    "handler": h, "role": "finished" if h == fin else "unfinished", "run": 1, "seq": n_fin, "t": 0})
    return out
