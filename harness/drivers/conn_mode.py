"""Driver for C21: the same history of handler / event / tick / state-store operations on a real
SqliteWorkflowStore in per-call-connection mode and in single_connection=True mode.

Abstract operations (records {k, a, v} of ConnMode.tla) -> real calls on (store, run r, handler h):
  h_upsert(status)   store.update(PersistentHandler(h, "w", status, run_id=r))            -> "ok"
  h_query            store.query(HandlerQuery(handler_id_in=[h]))                         -> status | "absent"
  h_delete           store.delete(HandlerQuery(handler_id_in=[h]))                        -> count
  ev_append          store.append_event(r, envelope)                                      -> "ok"
  ev_query           store.query_events(r)                                                -> count   (detail: sequences)
  tk_append          store.append_tick(r, {"n": i})                                       -> "ok"
  tk_get             store.get_ticks(r) and store.stream_ticks(r)                         -> count   (detail: sequences)
  st_get(key)        ss.get(key, default=0)          ss = store.create_state_store(r)     -> value
  st_get_state       ss.get_state()                                                       -> "a,b" values
  st_set(key, v)     ss.set(key, v)                                                       -> "ok"
  st_set_state(k,v)  ss.set_state(DictState(**{k: v}))                                    -> "ok"
  st_clear           ss.clear()                                                           -> "ok"
  st_seed            store.create_state_store(new run, serialized_state={"store_type": "sqlite", "run_id": r},
                     serializer).get_state()      (a run continued from this run's state)   -> "a,b" values
Results are rendered as the strings the spec uses; an exception gives r = "error" and exc = "<Type>:<feature>".
mode: "percall" | "single" | "masked" (single connection whose close() is neutralised by the harness: the
known defect masked, to keep checking the rest of the property).
"""
from __future__ import annotations

import os
import sqlite3

from harness.drivers import event_log as evdrv
from harness.env import stubimport, vloop

stubimport.install()


class _NoCloseConnection(sqlite3.Connection):
    def close(self):            # the owner (harness) closes it with really_close()
        pass

    def really_close(self):
        sqlite3.Connection.close(self)


class ConnStores:
    def __init__(self, dbdir):
        self.dir = str(dbdir)
        self._cur = {}
        self._keep = []
        self._masked = []

    def _new(self, mode):
        _, sq, _, _ = evdrv.mods()
        path = os.path.join(self.dir, "c21_%s_%d.db" % (mode, next(evdrv._counter)))
        if mode == "percall":
            st = sq.SqliteWorkflowStore(path)
            k = sqlite3.connect(path)
            k.execute("SELECT COUNT(*) FROM events").fetchall()
            self._keep.append(k)
        elif mode == "single":
            st = sq.SqliteWorkflowStore(path, single_connection=True)
        else:
            orig = sq.SqliteWorkflowStore.__dict__["_open_nolock"]      # the staticmethod object itself
            try:
                sq.SqliteWorkflowStore._open_nolock = staticmethod(
                    lambda p: sqlite3.connect("file:%s?vfs=unix-none" % p, uri=True, factory=_NoCloseConnection))
                st = sq.SqliteWorkflowStore(path, single_connection=True)
            finally:
                sq.SqliteWorkflowStore._open_nolock = orig
            self._masked.append(st._persistent_conn)
        return st

    def get(self, mode):
        st = self._cur.get(mode)
        if st is not None and mode != "percall":
            try:
                st._persistent_conn.execute("SELECT 1")
            except sqlite3.ProgrammingError:
                st = None               # the shared connection was closed by an earlier history: fresh store
        if st is None:
            st = self._new(mode)
            self._cur[mode] = st
        return st

    def close(self):
        for k in self._keep:
            k.close()
        for c in self._masked:
            try:
                c.really_close()
            except Exception:
                pass
        for st in self._cur.values():
            c = getattr(st, "_persistent_conn", None)
            if c is not None and not isinstance(c, _NoCloseConnection):
                try:
                    c.close()
                except Exception:
                    pass


def _exc(e):
    feat = "closed_db" if "closed database" in str(e).lower() else "other"
    return "%s:%s" % (type(e).__name__, feat)


def run_ops(stores: ConnStores, mode, ops, fresh_state_store=False, keys=("a",)):
    """Apply the abstract ops; returns the list of events {op, r, detail, exc}."""
    _, _, ab, _ = evdrv.mods()
    from workflows.context.state_store import DictState
    store = stores.get(mode)
    n = next(evdrv._counter)
    run, hid = "r_%d" % n, "h_%d" % n
    loop = vloop.new_loop()
    ss = [None]
    neid = [0]
    nseed = [0]

    def state_store():
        if ss[0] is None or fresh_state_store:
            ss[0] = store.create_state_store(run)
        return ss[0]

    async def collect(agen):
        return [x async for x in agen]

    def do(op):
        k, a, v = op["k"], op["a"], op["v"]
        R = loop.run_until_complete
        if k == "h_upsert":
            R(store.update(ab.PersistentHandler(handler_id=hid, workflow_name="w", status=a, run_id=run)))
            return "ok", "-"
        if k == "h_query":
            got = R(store.query(ab.HandlerQuery(handler_id_in=[hid])))
            return (got[0].status if got else "absent"), str(len(got))
        if k == "h_delete":
            return str(R(store.delete(ab.HandlerQuery(handler_id_in=[hid])))), "-"
        if k == "ev_append":
            eid = neid[0]
            neid[0] += 1
            R(store.append_event(run, evdrv.envelope(eid, False)))
            return "ok", "-"
        if k == "ev_query":
            evs = R(store.query_events(run))
            return str(len(evs)), ",".join("%d:%d" % (e.sequence, e.event.value.get("n", -1)) for e in evs)
        if k == "tk_append":
            eid = neid[0]
            neid[0] += 1
            R(store.append_tick(run, {"n": eid}))
            return "ok", "-"
        if k == "tk_get":
            tks = R(store.get_ticks(run))
            streamed = R(collect(store.stream_ticks(run)))
            return str(len(tks)), ",".join("%d:%s" % (t.sequence, t.tick_data.get("n")) for t in tks) + "|" + \
                ",".join("%d" % t.sequence for t in streamed)
        if k == "st_get":
            return str(R(state_store().get(a, 0))), "-"
        if k == "st_get_state":
            st = R(state_store().get_state())
            return "%s,%s" % (st.get("a", 0), st.get("b", 0) if "b" in keys else "-"), type(st).__name__
        if k == "st_set":
            R(state_store().set(a, v))
            return "ok", "-"
        if k == "st_set_state":
            R(state_store().set_state(DictState(**{a: v})))
            return "ok", "-"
        if k == "st_clear":
            R(state_store().clear())
            return "ok", "-"
        if k == "st_seed":
            from workflows.context.serializers import JsonSerializer
            nseed[0] += 1
            ss2 = store.create_state_store("%s_s%d" % (run, nseed[0]),
                                           serialized_state={"store_type": "sqlite", "run_id": run}, serializer=JsonSerializer())
            st = R(ss2.get_state())
            return "%s,%s" % (st.get("a", 0), st.get("b", 0) if "b" in keys else "-"), type(st).__name__
        raise ValueError(k)

    out = []
    try:
        for op in ops:
            ev = {"op": {"k": op["k"], "a": op["a"], "v": int(op["v"])}, "r": "error", "detail": "-", "exc": "-"}
            try:
                ev["r"], ev["detail"] = do(op)
            except Exception as e:
                ev["exc"] = _exc(e)
            out.append(ev)
    finally:
        vloop.close_loop(loop)
    return out
