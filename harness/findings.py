"""python -m harness.findings : merge known_findings.d/*.json into the committed known_findings.json."""
import json
from pathlib import Path

ROOT = Path(__file__).resolve().parent.parent


def merge():
    out = {"_comment": "Genuine defects of run-llama/workflows-py found by the checks. 'open' = recorded, not repaired: a check "
                       "that meets a listed key prints KNOWN-FINDING and does not fail; any other key is a VIOLATION. "
                       "'fixed' = repaired by the named fix: commit in /repo; fixed entries suppress nothing.",
           "open": [], "fixed": []}
    for f in sorted((ROOT / "known_findings.d").glob("*.json")):
        d = json.loads(f.read_text())
        out["open"] += d.get("open", [])
        for e in d.get("fixed", []):
            e.setdefault("line", "fixed: property=%s %s %s" % (e["property"], e.get("commit", "?"), e["what"]))
            out["fixed"].append(e)
    (ROOT / "known_findings.json").write_text(json.dumps(out, indent=1) + "\n")
    return out


if __name__ == "__main__":
    o = merge()
    print("open:", len(o["open"]), "fixed:", len(o["fixed"]))
