"""Parser for TLA+ values as printed by TLC (PrintT output, -dump dot labels, traces).

Mapping:  <<a, b>> -> tuple   {a, b} -> frozenset   [k |-> v] -> dict
          (k :> v @@ ...) -> dict (keys may be ints/strings/tuples)
          "s" -> str   12 / -3 -> int   TRUE/FALSE -> bool   identifier -> ModelValue(str)
          a..b -> frozenset(range)
"""
from __future__ import annotations


class ModelValue(str):
    def __repr__(self):
        return "MV(%s)" % str.__repr__(self)


class ParseError(ValueError):
    pass


class _P:
    def __init__(self, s: str):
        self.s = s
        self.i = 0
        self.n = len(s)

    def ws(self):
        s, n = self.s, self.n
        while self.i < n and s[self.i] in " \t\r\n":
            self.i += 1

    def peek(self, k=1):
        return self.s[self.i:self.i + k]

    def expect(self, tok):
        self.ws()
        if not self.s.startswith(tok, self.i):
            raise ParseError("expected %r at %d: %r" % (tok, self.i, self.s[self.i:self.i + 40]))
        self.i += len(tok)

    def value(self):
        self.ws()
        s = self.s
        if self.i >= self.n:
            raise ParseError("unexpected end")
        c = s[self.i]
        if s.startswith("<<", self.i):
            self.i += 2
            items = self.items(">>")
            return tuple(items)
        if c == "{":
            self.i += 1
            items = self.items("}")
            return frozenset(_hashable(x) for x in items)
        if c == "[":
            self.i += 1
            return self.record()
        if c == "(":
            self.i += 1
            return self.function()
        if c == '"':
            return self.string()
        if c == "-" or c.isdigit():
            j = self.i + 1
            while j < self.n and s[j].isdigit():
                j += 1
            v = int(s[self.i:j])
            self.i = j
            self.ws()
            if s.startswith("..", self.i):
                self.i += 2
                hi = self.value()
                return frozenset(range(v, hi + 1))
            return v
        if c.isalpha() or c == "_":
            j = self.i
            while j < self.n and (s[j].isalnum() or s[j] == "_"):
                j += 1
            w = s[self.i:j]
            self.i = j
            if w == "TRUE":
                return True
            if w == "FALSE":
                return False
            return ModelValue(w)
        raise ParseError("unexpected %r at %d" % (c, self.i))

    def items(self, close):
        out = []
        self.ws()
        if self.s.startswith(close, self.i):
            self.i += len(close)
            return out
        while True:
            out.append(self.value())
            self.ws()
            if self.s.startswith(close, self.i):
                self.i += len(close)
                return out
            self.expect(",")

    def record(self):
        out = {}
        self.ws()
        while True:
            self.ws()
            j = self.i
            while j < self.n and (self.s[j].isalnum() or self.s[j] == "_"):
                j += 1
            key = self.s[self.i:j]
            self.i = j
            self.expect("|->")
            out[key] = self.value()
            self.ws()
            if self.peek() == "]":
                self.i += 1
                return out
            self.expect(",")

    def function(self):
        out = {}
        while True:
            k = self.value()
            self.expect(":>")
            v = self.value()
            out[_hashable(k)] = v
            self.ws()
            if self.peek() == ")":
                self.i += 1
                return out
            self.expect("@@")

    def string(self):
        assert self.s[self.i] == '"'
        j = self.i + 1
        buf = []
        s = self.s
        while True:
            c = s[j]
            if c == "\\":
                nxt = s[j + 1]
                buf.append({"n": "\n", "t": "\t", "r": "\r", "f": "\f"}.get(nxt, nxt))
                j += 2
                continue
            if c == '"':
                break
            buf.append(c)
            j += 1
        self.i = j + 1
        return "".join(buf)


def _hashable(x):
    if isinstance(x, dict):
        return tuple(sorted(((_hashable(k), _hashable(v)) for k, v in x.items()), key=repr))
    if isinstance(x, (list, tuple)):
        return tuple(_hashable(i) for i in x)
    if isinstance(x, (set, frozenset)):
        return frozenset(_hashable(i) for i in x)
    return x


def parse(text: str):
    p = _P(text)
    v = p.value()
    p.ws()
    if p.i != p.n:
        raise ParseError("trailing input at %d: %r" % (p.i, text[p.i:p.i + 40]))
    return v


def parse_state(text: str) -> dict:
    """Parse a TLC state:  '/\\ x = 1\\n/\\ y = <<>>'  (or a single 'x = 1')."""
    p = _P(text)
    out = {}
    while True:
        p.ws()
        if p.i >= p.n:
            return out
        if p.s.startswith("/\\", p.i):
            p.i += 2
        p.ws()
        j = p.i
        while j < p.n and (p.s[j].isalnum() or p.s[j] == "_"):
            j += 1
        name = p.s[p.i:j]
        if not name:
            raise ParseError("state: expected variable at %d: %r" % (p.i, p.s[p.i:p.i + 40]))
        p.i = j
        p.expect("=")
        out[name] = p.value()


def to_py(v):
    """Convert parsed values to plain JSON-able python (sets -> sorted lists, tuples -> lists)."""
    if isinstance(v, dict):
        return {(k if isinstance(k, str) else json_key(k)): to_py(x) for k, x in v.items()}
    if isinstance(v, (tuple, list)):
        return [to_py(x) for x in v]
    if isinstance(v, (set, frozenset)):
        return sorted((to_py(x) for x in v), key=repr)
    if isinstance(v, ModelValue):
        return str(v)
    return v


def json_key(k):
    if isinstance(k, (int, bool)):
        return str(k)
    return repr(to_py(k))


def to_tla(v) -> str:
    """Render python data as a TLA+ expression (for generated cfg constants / modules)."""
    if isinstance(v, bool):
        return "TRUE" if v else "FALSE"
    if isinstance(v, int):
        return str(v)
    if isinstance(v, ModelValue):
        return str(v)
    if isinstance(v, str):
        return '"' + v.replace("\\", "\\\\").replace('"', '\\"') + '"'
    if isinstance(v, (list, tuple)):
        return "<<" + ", ".join(to_tla(x) for x in v) + ">>"
    if isinstance(v, (set, frozenset)):
        return "{" + ", ".join(sorted(to_tla(x) for x in v)) + "}"
    if isinstance(v, dict):
        if not v:
            return "<<>>"
        if all(isinstance(k, str) and k.isidentifier() for k in v):
            return "[" + ", ".join("%s |-> %s" % (k, to_tla(x)) for k, x in v.items()) + "]"
        return "(" + " @@ ".join("%s :> %s" % (to_tla(k), to_tla(x)) for k, x in v.items()) + ")"
    if v is None:
        return '"none"'
    raise TypeError("cannot render %r" % (v,))
