"""Running TLC and reading what it says (DESIGN.md 3.3)."""
from __future__ import annotations

import os
import re
import shutil
import subprocess
import time
from dataclasses import dataclass, field
from pathlib import Path

from . import tlaval

JAR = "/opt/veriftools/tla/tla2tools.jar"
CM = "/opt/veriftools/tla/CommunityModules-deps.jar"
SPECS = Path(__file__).resolve().parent.parent / "specs"


class TlcFailure(RuntimeError):
    """Machinery failure (not a property verdict)."""


@dataclass
class TlcResult:
    ok: bool                      # no invariant/property violation, no error
    generated: int = 0
    distinct: int = 0
    depth: int = 0
    violated: str | None = None   # name of the violated invariant / property
    error: str | None = None      # other TLC error text
    prints: list = field(default_factory=list)     # parsed PrintT values
    actions: dict = field(default_factory=dict)    # action -> (distinct, generated) from -coverage
    stdout: str = ""
    wall_s: float = 0.0
    cmd: str = ""
    trace: list = field(default_factory=list)      # counterexample states (dicts) if any

    def zero_actions(self, ignore=()):
        return sorted(a for a, (d, g) in self.actions.items() if g == 0 and a not in ignore and a != "Init")


_SUMMARY = re.compile(r"^(\d+) states generated, (\d+) distinct states found", re.M)
_DEPTH = re.compile(r"depth of the complete state graph search is (\d+)")
_INV = re.compile(r"Error: Invariant (\S+) is violated")
_ACTPROP = re.compile(r"Error: Action property (\S+) is violated")
_TEMPORAL = re.compile(r"Error: Temporal properties were violated")
_COV = re.compile(r"^<(\w+) line \d+, col \d+ to line \d+, col \d+ of module (\w+)>: (\d+):(\d+)", re.M)
_STATE_HDR = re.compile(r"^State (\d+): <(.*)>$")


# small jobs (trace batches, observers, tiny models): JIT level 1 and few GC/compiler threads -- a quarter of the CPU
# time of the default JVM settings for runs of a few thousand states, which matters when many run side by side
LIGHT = ("-XX:TieredStopAtLevel=1", "-XX:ParallelGCThreads=2", "-XX:CICompilerCount=1", "-Xmx3g")


def _java_cmd(jvm_opts=()):
    return ["java", "-XX:+UseParallelGC", "-Xss16m", *jvm_opts, "-cp", JAR + ":" + CM, "tlc2.TLC"]


def run(module_path, cfg_path, *, workdir, workers=16, mode="check", depth=None, num=None,
        seed=None, coverage=True, dump=None, env=None, timeout=3600, jvm_opts=(), deadlock=True,
        sim_file=None, extra=()) -> TlcResult:
    """Run TLC on module_path with cfg_path.

    mode: "check" (BFS exhaustive) or "simulate".
    dump: path (without extension) for `-dump dot,actionlabels`.
    """
    module_path = Path(module_path)
    workdir = Path(workdir)
    workdir.mkdir(parents=True, exist_ok=True)
    import uuid
    meta = workdir / ("meta_" + module_path.stem + "_" + uuid.uuid4().hex[:10])
    cmd = _java_cmd(jvm_opts)
    if mode == "simulate":
        sim = "num=%d" % (num or 1000)
        if sim_file:
            sim = "file=%s," % sim_file + sim
        cmd += ["-simulate", sim, "-depth", str(depth or 50)]
        if seed is not None:
            cmd += ["-seed", str(seed)]
    cmd += ["-workers", str(workers), "-metadir", str(meta), "-noGenerateSpecTE"]
    if mode == "check" and "-fp" not in extra:
        cmd += ["-fp", "0"]        # fixed fingerprint polynomial: state ids (and graph-derived schedules) are reproducible
    if coverage and mode == "check":
        cmd += ["-coverage", "1"]
    if not deadlock:
        cmd += ["-deadlock"]
    if dump:
        cmd += ["-dump", "dot,actionlabels", str(dump)]
    cmd += list(extra)
    cmd += ["-config", str(cfg_path), str(module_path)]
    e = dict(os.environ)
    if env:
        e.update({k: str(v) for k, v in env.items()})
    t0 = time.perf_counter()      # not time.time(): drivers running in other threads patch it to the virtual clock
    try:
        p = subprocess.run(cmd, cwd=str(module_path.parent), env=e, capture_output=True, text=True,
                           timeout=timeout)
        out = p.stdout + ("\n" + p.stderr if p.stderr.strip() else "")
        rc = p.returncode
    except subprocess.TimeoutExpired as ex:
        out = (ex.stdout.decode() if isinstance(ex.stdout, bytes) else (ex.stdout or "")) + "\nTLC TIMEOUT"
        rc = -9
        subprocess.run(["pkill", "-f", str(meta)], capture_output=True)
    finally:
        shutil.rmtree(meta, ignore_errors=True)
    res = TlcResult(ok=False, stdout=out, wall_s=time.perf_counter() - t0, cmd=" ".join(cmd))
    m = None
    for m in _SUMMARY.finditer(out):
        pass
    if m:
        res.generated, res.distinct = int(m.group(1)), int(m.group(2))
    m = _DEPTH.search(out)
    if m:
        res.depth = int(m.group(1))
    for m in _COV.finditer(out):
        name, d, g = m.group(1), int(m.group(3)), int(m.group(4))
        od, og = res.actions.get(name, (0, 0))
        res.actions[name] = (od + d, og + g)
    m = _INV.search(out) or _ACTPROP.search(out)
    if m:
        res.violated = m.group(1)
    elif _TEMPORAL.search(out):
        res.violated = "<temporal>"
    res.prints = parse_prints(out)
    if res.violated:
        res.trace = parse_error_trace(out)
    finished = "Model checking completed. No error has been found." in out or (
        mode == "simulate" and rc in (0,) and "Error:" not in out)
    if rc == -9:
        res.error = "timeout after %ss" % timeout
    elif not finished and not res.violated:
        errs = [l for l in out.splitlines() if l.startswith("Error:") or "Exception" in l]
        res.error = "; ".join(errs[:5]) or ("TLC exit code %d" % rc)
    res.ok = finished and not res.violated and not res.error
    return res


def parse_prints(out: str):
    """PrintT values: top-level lines starting with '<<' (possibly wrapped over lines)."""
    vals = []
    lines = out.splitlines()
    i = 0
    while i < len(lines):
        ln = lines[i]
        if ln.startswith("<<"):
            buf = ln
            # accumulate wrapped lines until brackets balance
            while _unbalanced(buf) and i + 1 < len(lines):
                i += 1
                buf += "\n" + lines[i]
            try:
                vals.append(tlaval.parse(buf))
            except tlaval.ParseError:
                pass
        i += 1
    return vals


def _unbalanced(s: str) -> bool:
    depth = 0
    instr = False
    i = 0
    while i < len(s):
        c = s[i]
        if instr:
            if c == "\\":
                i += 1
            elif c == '"':
                instr = False
        else:
            if c == '"':
                instr = True
            elif c in "<[{(":
                if c == "<" and not s.startswith("<<", i):
                    pass
                else:
                    depth += 1
                    if c == "<":
                        i += 1
            elif c in ">]})":
                if c == ">" and not s.startswith(">>", i):
                    pass
                else:
                    depth -= 1
                    if c == ">":
                        i += 1
        i += 1
    return depth > 0


def parse_error_trace(out: str):
    states = []
    cur = None
    hdr = None
    for ln in out.splitlines():
        m = _STATE_HDR.match(ln)
        if m:
            if cur is not None:
                states.append((hdr, "\n".join(cur)))
            hdr, cur = m.group(2), []
            continue
        if cur is not None:
            if ln.strip() == "" or ln.startswith("Error:") or re.match(r"^\d+ states generated", ln):
                states.append((hdr, "\n".join(cur)))
                cur = None
            else:
                cur.append(ln)
    if cur:
        states.append((hdr, "\n".join(cur)))
    outl = []
    for hdr, txt in states:
        try:
            st = tlaval.parse_state(txt)
        except tlaval.ParseError:
            st = {"_raw": txt}
        act = hdr.split(" line ")[0] if hdr else ""
        outl.append({"action": act, "state": st})
    return outl


# ------------------------------------------------------------------ state graph (dot dump)

_NODE = re.compile(r'^(-?\d+) \[label="((?:[^"\\]|\\.)*)"(,style = filled)?')
_EDGE = re.compile(r'^(-?\d+) -> (-?\d+) \[label="((?:[^"\\]|\\.)*)"')


def _dot_unescape(s: str) -> str:
    out = []
    i = 0
    while i < len(s):
        c = s[i]
        if c == "\\" and i + 1 < len(s):
            n = s[i + 1]
            out.append("\n" if n == "n" else n)
            i += 2
        else:
            out.append(c)
            i += 1
    return "".join(out)


@dataclass
class Graph:
    states: dict      # id -> state dict (parsed lazily)
    raw: dict         # id -> raw text
    edges: list       # (src, dst, action label)
    init: list

    def state(self, sid):
        st = self.states.get(sid)
        if st is None:
            st = tlaval.parse_state(self.raw[sid])
            self.states[sid] = st
        return st

    def succ(self):
        s = {}
        for a, b, lab in self.edges:
            s.setdefault(a, []).append((b, lab))
        return s


def load_dot(path) -> Graph:
    raw, edges, init = {}, [], []
    with open(path) as f:
        for ln in f:
            m = _EDGE.match(ln)
            if m:
                edges.append((int(m.group(1)), int(m.group(2)), _dot_unescape(m.group(3))))
                continue
            m = _NODE.match(ln)
            if m:
                sid = int(m.group(1))
                if sid not in raw:
                    raw[sid] = _dot_unescape(m.group(2))
                if m.group(3):
                    init.append(sid)
    return Graph(states={}, raw=raw, edges=edges, init=init)


def covering_paths(g: Graph, max_len=None, rng=None):
    """A set of paths from initial states that together traverse every edge of the graph
    (greedy: BFS tree path to the edge's source, then extend along unvisited edges)."""
    succ = g.succ()
    # BFS tree for shortest prefix to each state
    parent = {}
    order = list(g.init)
    for s in order:
        parent[s] = None
    qi = 0
    while qi < len(order):
        s = order[qi]
        qi += 1
        for (d, lab) in succ.get(s, ()):
            if d not in parent:
                parent[d] = (s, lab)
                order.append(d)
    unvisited = set((a, b, lab) for a, b, lab in g.edges if a in parent)
    paths = []

    def prefix(s):
        p = []
        while parent[s] is not None:
            ps, lab = parent[s]
            p.append((ps, s, lab))
            s = ps
        p.reverse()
        return p

    # iterate deterministic order
    for e in sorted(unvisited, key=lambda e: (e[0], e[1], e[2])):
        if e not in unvisited:
            continue
        p = prefix(e[0])
        for pe in p:
            unvisited.discard(pe)
        p.append(e)
        unvisited.discard(e)
        cur = e[1]
        while max_len is None or len(p) < max_len:
            nxt = None
            for (d, lab) in succ.get(cur, ()):
                if (cur, d, lab) in unvisited:
                    nxt = (cur, d, lab)
                    break
            if nxt is None:
                break
            p.append(nxt)
            unvisited.discard(nxt)
            cur = nxt[1]
        paths.append(p)
    return paths


# ------------------------------------------------------------------ simulation trace files

def load_sim_traces(prefix_glob_dir, stem):
    """Parse files written by `-simulate file=<dir>/<stem>`: one TLA+ file per behaviour."""
    out = []
    d = Path(prefix_glob_dir)
    for f in sorted(d.glob(stem + "*")):
        txt = f.read_text()
        beh = []
        cur_act = None
        for block in re.split(r"\n(?=\\\* )", txt):
            pass
        # format:  \* <Action line.. of module M>\nSTATE_n ==\n/\ x = ...\n\n
        parts = re.split(r"^STATE_(\d+) ==\s*$", txt, flags=re.M)
        # parts[0] preamble, then (n, body) pairs
        acts = re.findall(r"^\\\* <?(\w+)", txt, flags=re.M)
        for k in range(1, len(parts), 2):
            body = parts[k + 1]
            body = body.split("\\*")[0].strip()
            body = re.sub(r"={4,}.*$", "", body, flags=re.S).strip()
            try:
                st = tlaval.parse_state(body)
            except tlaval.ParseError:
                continue
            beh.append(st)
        out.append(beh)
    return out
