"""Import environment for running /repo code in this sandbox (DESIGN.md 3.2).

* puts /repo package source roots on sys.path (the working tree is imported at run
  time, nothing is installed or copied);
* adds the inert llama_index_instrumentation shim;
* serves empty stand-in modules for third-party distributions that are not installed
  (names only: any attribute is a dummy class) -- what is stubbed is NOT verified;
* lets a check pre-seed a repo package whose __init__ drags in an unavailable stack.
"""
from __future__ import annotations

import importlib.abc
import importlib.machinery
import os
import sys
import types

REPO = os.environ.get("VERIF_REPO", "/repo")
HERE = os.path.dirname(os.path.abspath(__file__))

SRC_ROOTS = [
    "packages/llama-index-workflows/src",
    "packages/llama-agents-server/src",
    "packages/llama-agents-client/src",
    "packages/llama-agents-core/src",
    "packages/llama-agents-dbos/src",
    "packages/llama-agents-control-plane/src",
    "packages/llama-agents-agentcore/src",
    "packages/llama-agents-appserver/src",
    "packages/llamactl/src",
    "src",
]

MISSING_ROOTS = {
    "starlette", "uvicorn", "asyncpg", "sqlalchemy", "dbos", "kubernetes", "kubernetes_asyncio",
    "cryptography", "dulwich", "fastapi", "pydantic_settings", "truststore", "psycopg",
    "opentelemetry", "rich", "textual", "questionary", "click", "tenacity", "yaml", "tomlkit",
    "aiohttp", "websockets", "prometheus_client", "structlog", "boto3", "botocore",
    "bedrock_agentcore", "jwt", "keyring", "platformdirs", "vibe", "llama_cloud",
    "llama_cloud_services", "nanoid", "watchfiles", "docker", "git", "dotenv", "typer",
}


class _Dummy:
    """Attribute sink used for names imported from stubbed modules."""

    def __init__(self, *a, **k):
        pass

    def __call__(self, *a, **k):
        # usable as decorator: @stub(...) / @stub
        if len(a) == 1 and callable(a[0]) and not k:
            return a[0]
        return _Dummy()

    def __getattr__(self, name):
        if name.startswith("__") and name.endswith("__"):
            raise AttributeError(name)
        return _Dummy()

    def __iter__(self):
        return iter(())

    def __mro_entries__(self, bases):
        return (object,)

    def __class_getitem__(cls, item):
        return cls

    def __getitem__(self, item):
        return _Dummy()

    def __or__(self, other):
        return self

    def __ror__(self, other):
        return self


class _StubModule(types.ModuleType):
    def __getattr__(self, name):
        if name.startswith("__") and name.endswith("__"):
            raise AttributeError(name)
        # classes, so that `class X(stub.Base)` and isinstance checks do not blow up
        val = type(name, (_DummyBase,), {"__module__": self.__name__})
        setattr(self, name, val)
        return val


class _DummyMeta(type):
    def __getattr__(cls, name):
        if name.startswith("__") and name.endswith("__"):
            raise AttributeError(name)
        return _Dummy()

    def __getitem__(cls, item):
        return cls

    def __or__(cls, other):
        return cls

    def __ror__(cls, other):
        return cls


class _DummyBase(metaclass=_DummyMeta):
    def __init__(self, *a, **k):
        pass

    def __call__(self, *a, **k):
        if len(a) == 1 and callable(a[0]) and not k:
            return a[0]
        return _Dummy()

    def __getattr__(self, name):
        if name.startswith("__") and name.endswith("__"):
            raise AttributeError(name)
        return _Dummy()


class _StubFinder(importlib.abc.MetaPathFinder, importlib.abc.Loader):
    def __init__(self, roots):
        self.roots = set(roots)
        self.served = set()

    def find_spec(self, fullname, path=None, target=None):
        root = fullname.split(".")[0]
        if root in self.roots:
            return importlib.machinery.ModuleSpec(fullname, self, is_package=True)
        return None

    def create_module(self, spec):
        m = _StubModule(spec.name)
        m.__path__ = []
        return m

    def exec_module(self, module):
        self.served.add(module.__name__)


_FINDER = None


def install(extra_missing=(), repo=None):
    """Idempotent. Returns the stub finder (its .served lists what was faked)."""
    global _FINDER, REPO
    if repo:
        REPO = repo
    for rel in reversed(SRC_ROOTS):
        p = os.path.join(REPO, rel)
        if os.path.isdir(p) and p not in sys.path:
            sys.path.insert(0, p)
    shim = os.path.join(HERE, "shims")
    if shim not in sys.path:
        sys.path.insert(0, shim)
    if _FINDER is None:
        roots = set()
        import importlib.util

        for r in set(MISSING_ROOTS) | set(extra_missing):
            try:
                if importlib.util.find_spec(r) is None:
                    roots.add(r)
            except (ImportError, ValueError):
                roots.add(r)
        _FINDER = _StubFinder(roots)
        sys.meta_path.append(_FINDER)
    return _FINDER


def namespace_stub(fullname, real_dir=None):
    """Pre-seed sys.modules[fullname] with an empty package whose __path__ is the real
    directory, so submodules import normally but the heavy __init__ is bypassed."""
    if fullname in sys.modules:
        return sys.modules[fullname]
    m = types.ModuleType(fullname)
    m.__path__ = [real_dir] if real_dir else []
    sys.modules[fullname] = m
    parent, _, child = fullname.rpartition(".")
    if parent and parent in sys.modules:
        setattr(sys.modules[parent], child, m)
    return m


def stub_module(fullname, **attrs):
    """Register a stand-in for one repo module irrelevant to the property under test."""
    m = _StubModule(fullname)
    m.__path__ = []
    for k, v in attrs.items():
        setattr(m, k, v)
    sys.modules[fullname] = m
    parent, _, child = fullname.rpartition(".")
    if parent and parent in sys.modules:
        setattr(sys.modules[parent], child, m)
    return m
