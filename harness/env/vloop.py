"""Virtual-time asyncio event loop and clock patching (DESIGN.md 3.2).

The loop changes *when* timers fire (only when the driver advances the clock), never the
order in which asyncio runs ready callbacks.  The driver is synchronous: it calls
quiesce() to run everything that is ready, then decides the next environment action.
"""
from __future__ import annotations

import asyncio
import heapq
import selectors
import time as _time


class _NullSelector(selectors.BaseSelector):
    """Selector that never blocks (no real I/O is used by the code under test)."""

    def __init__(self):
        self._map = {}

    def register(self, fileobj, events, data=None):
        key = selectors.SelectorKey(fileobj, fileobj if isinstance(fileobj, int) else fileobj.fileno(), events, data)
        self._map[fileobj] = key
        return key

    def unregister(self, fileobj):
        return self._map.pop(fileobj)

    def modify(self, fileobj, events, data=None):
        self.unregister(fileobj)
        return self.register(fileobj, events, data)

    def select(self, timeout=None):
        return []

    def get_map(self):
        return self._map

    def close(self):
        self._map.clear()


class VirtualLoop(asyncio.SelectorEventLoop):
    def __init__(self, start: float = 1000.0, wall_epoch: float = 1_700_000_000.0):
        super().__init__(selector=_NullSelector())
        self._vnow = float(start)
        self.wall_epoch = float(wall_epoch)
        self._start = float(start)

    # asyncio's clock
    def time(self) -> float:
        return self._vnow

    def mono(self) -> float:
        return self._vnow

    def wall(self) -> float:
        return self.wall_epoch + (self._vnow - self._start)

    def _run_ready_once(self):
        self.call_soon(self.stop)
        self.run_forever()

    def quiesce(self, max_rounds: int = 100000) -> int:
        """Run until no callback is ready and no timer is due at the current virtual time."""
        rounds = 0
        while True:
            self._run_ready_once()
            rounds += 1
            due = any((not h._cancelled) and h._when <= self._vnow for h in self._scheduled)
            if not self._ready and not due:
                return rounds
            if rounds > max_rounds:
                raise RuntimeError("virtual loop does not quiesce (livelock?)")

    def next_timer(self):
        """Earliest pending timer deadline (virtual time) or None."""
        while self._scheduled and self._scheduled[0]._cancelled:
            h = heapq.heappop(self._scheduled)
            h._scheduled = False
        live = [h._when for h in self._scheduled if not h._cancelled]
        return min(live) if live else None

    def advance_to(self, t: float):
        """Advance the clock to t, firing timers in deadline order, quiescing after each."""
        self.quiesce()
        while True:
            nt = self.next_timer()
            if nt is None or nt > t:
                break
            self._vnow = max(self._vnow, nt)
            self.quiesce()
        self._vnow = max(self._vnow, t)
        self.quiesce()

    def run_iterations(self, n: int):
        """Run exactly n iterations of the event loop (finer than quiesce: for sub-quiescence schedules)."""
        for _ in range(n):
            self._run_ready_once()

    def jump_to(self, t: float):
        """Move the clock without running anything (the loop was 'frozen' across that span)."""
        self._vnow = max(self._vnow, t)

    def advance(self, dt: float):
        self.advance_to(self._vnow + dt)

    def run_to_idle(self, horizon: float = 10_000.0):
        """Fire every timer up to horizon (relative)."""
        end = self._vnow + horizon
        self.quiesce()
        while True:
            nt = self.next_timer()
            if nt is None or nt > end:
                break
            self._vnow = max(self._vnow, nt)
            self.quiesce()


class patched_clocks:
    """Context manager: time.time / time.monotonic read the virtual loop's clocks."""

    def __init__(self, loop: VirtualLoop):
        self.loop = loop

    def __enter__(self):
        self._t, self._m = _time.time, _time.monotonic
        _time.time = self.loop.wall
        _time.monotonic = self.loop.mono
        return self

    def __exit__(self, *exc):
        _time.time, _time.monotonic = self._t, self._m
        return False


def new_loop(**kw) -> VirtualLoop:
    loop = VirtualLoop(**kw)
    asyncio.set_event_loop(loop)
    return loop


def close_loop(loop: VirtualLoop):
    try:
        pending = [t for t in asyncio.all_tasks(loop) if not t.done()]
        for t in pending:
            t.cancel()
        if pending:
            loop.quiesce()
        loop.run_until_complete(loop.shutdown_asyncgens())
    except Exception:
        pass
    finally:
        asyncio.set_event_loop(None)
        loop.close()
