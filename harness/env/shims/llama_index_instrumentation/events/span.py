from ..base import BaseEvent


class SpanDropEvent(BaseEvent):
    span_id: str = ""
    err_str: str = ""
