from __future__ import annotations

import contextlib
import contextvars
from typing import Any, Dict

active_instrument_tags: contextvars.ContextVar[Dict[str, Any]] = contextvars.ContextVar(
    "verif_instrument_tags", default={}
)


@contextlib.contextmanager
def instrument_tags(new_tags):
    token = active_instrument_tags.set(dict(new_tags))
    try:
        yield
    finally:
        active_instrument_tags.reset(token)


class Dispatcher:
    def __init__(self, name: str = "root") -> None:
        self.name = name

    def span(self, func):  # identity decorator
        return func

    def event(self, *a, **k):
        return None

    def span_enter(self, *a, **k):
        return None

    def span_exit(self, *a, **k):
        return None

    def span_drop(self, *a, **k):
        return None

    def capture_propagation_context(self):
        return dict(active_instrument_tags.get())

    def restore_propagation_context(self, ctx):
        return None

    def add_event_handler(self, *a, **k):
        return None

    def add_span_handler(self, *a, **k):
        return None


_ROOT = Dispatcher()


def get_dispatcher(name: str = "root") -> Dispatcher:
    return _ROOT
