from pydantic import BaseModel, ConfigDict


class BaseEvent(BaseModel):
    model_config = ConfigDict(arbitrary_types_allowed=True, extra="allow")

    @classmethod
    def class_name(cls) -> str:
        return cls.__name__
