"""Inert stand-in for llama_index_instrumentation (not installed in this sandbox).

Tracing is not the subject of any property; this shim is part of the trusted base
(DESIGN.md 3.2).  Spans are the identity, events are dropped.
"""
from .dispatcher import Dispatcher, get_dispatcher, instrument_tags, active_instrument_tags  # noqa: F401
