import contextvars

active_span_id: contextvars.ContextVar = contextvars.ContextVar("verif_active_span_id", default=None)
