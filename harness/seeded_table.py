"""python -m harness.seeded_table : markdown table of /verif/seeded/*/meta.json (for DESIGN.md section 12)."""
import json
import re
from pathlib import Path

ROOT = Path(__file__).resolve().parent.parent


def first_change(meta, patch):
    files = re.findall(r"^\+\+\+ b/(\S+)", patch, flags=re.M)
    f = files[0].split("/")[-1] if files else "?"
    plus = [l[1:].strip() for l in patch.splitlines() if l.startswith("+") and not l.startswith("+++") and l[1:].strip()
            and not l[1:].strip().startswith("#")]
    return f, (plus[0][:70] if plus else "(lines removed)")


def main():
    rows = []
    for d in sorted((ROOT / "seeded").iterdir()):
        m = d / "meta.json"
        if not m.exists():
            continue
        meta = json.loads(m.read_text())
        patch = (d / "patch.diff").read_text() if (d / "patch.diff").exists() else ""
        f, chg = first_change(meta, patch)
        keys = ", ".join(k.replace("obs:", "") for k in (meta.get("check_keys") or [])[:2])
        rows.append("| %s | %s | `%s`: `%s` | %s | %s |" % (
            d.name, meta.get("property"), f, chg.replace("|", "\\|"), "caught" if meta.get("detected") else "**missed**",
            keys[:110].replace("|", "\\|")))
    print("| seeded change | checked by | file: first added line | result | failing clause(s) |")
    print("|---|---|---|---|---|")
    print("\n".join(rows))
    n = len(rows)
    print("\n%d changes, %d caught." % (n, sum(1 for r in rows if "| caught |" in r)))


def update_design():
    """Replace the table of DESIGN.md section 12 (from its header row to the 'N changes, M caught.' line)."""
    import io
    import contextlib
    buf = io.StringIO()
    with contextlib.redirect_stdout(buf):
        main()
    table = buf.getvalue().rstrip("\n") + "\n"
    p = ROOT / "DESIGN.md"
    s = p.read_text()
    i = s.index("| seeded change | checked by |")
    m = re.search(r"^\d+ changes, \d+ caught\.\n", s[i:], flags=re.M)
    j = i + m.end()
    p.write_text(s[:i] + table + s[j:])


if __name__ == "__main__":
    import sys
    if "--update-design" in sys.argv:
        update_design()
    else:
        main()
