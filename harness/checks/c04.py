"""C04 -- every run ends once and its stream ends with the matching terminal event."""
from harness.checks import _engine as eg

LEVEL = "model_checking"
RULE = ("programs = outcome scenarios (result, step failure with/without retries, double StopEvent on two workers, junk "
        "return, timeout, user cancel, a retry policy that raises) + fan-out; schedules = bounded DFS incl. timeout "
        "advance and cancel at any quiescence point + seeded walks; non-trivial = the run ended while other work was "
        "in flight or by a non-result path")


def nontrivial(tr):
    o = [r for r in tr if r["e"] == "outcome"]
    if not o:
        return False
    if o[-1]["kind"] != "result":
        return True
    # result while other bodies were still live
    return any(r["e"] == "step_end" and r["how"] == "cancelled" for r in tr)


def key_of(clause, label, prog, tr, l):
    if clause in ("no_terminal_event", "consumer_not_terminated") and label == "retry policy raises":
        return "obs:%s:retry_policy_raises_in_reducer" % clause
    return "obs:" + clause


def run(chk):
    items = eg.collect(chk, ["outcomes"], allow_cancel=True, timeout_advance=True, p_cancel=0.05, drain=False)
    # steps racing with the StopEvent: two bodies resumed in the same loop iteration (batch releases)
    items += eg.collect(chk, ["racing"], batch=True, drain=False, paths_q=40, walks_q=10)
    eg.standard_run(chk, "C04", None, {"pub", "stream", "stream_end", "outcome", "quiet"}, key_of=key_of,
                    nontrivial=nontrivial, items=items)
