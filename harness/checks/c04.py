"""C04 -- every run ends once and its stream ends with the matching terminal event."""
from harness.checks import _engine as eg

LEVEL = "model_checking"
RULE = ("programs = outcome scenarios (result, step failure with/without retries, double StopEvent on two workers, junk "
        "return, timeout, user cancel, a retry policy that raises) + fan-out; schedules = bounded DFS incl. timeout "
        "advance and cancel at any quiescence point + seeded walks; non-trivial = the run ended while other work was "
        "in flight or by a non-result path")


def nontrivial(tr):
    o = [r for r in tr if r["e"] == "outcome"]
    if not o:
        return False
    if o[-1]["kind"] != "result":
        return True
    # result while other bodies were still live
    return any(r["e"] == "step_end" and r["how"] == "cancelled" for r in tr)


def key_of(clause, label, prog, tr, l):
    if clause in ("no_terminal_event", "consumer_not_terminated") and label == "retry policy raises":
        return "obs:%s:retry_policy_raises_in_reducer" % clause
    return "obs:" + clause


def run(chk):
    items = eg.collect(chk, ["outcomes"], allow_cancel=True, timeout_advance=True, p_cancel=0.05, drain=False)
    # steps racing with the StopEvent: two bodies resumed in the same loop iteration (batch releases)
    items += eg.collect(chk, ["racing"], batch=True, drain=False, paths_q=40, walks_q=10)
    # a second stream consumer against every way a run ends (fixed schedules: found by the thorough tier's walks, /repo fix
    # 287ea57 -- the run's task completes later than the terminal event is consumed)
    from harness.drivers import engine as en
    from harness.programs import scenarios as sc
    progs = {l: (p, e) for (l, p, e) in sc.family("outcomes", quick=False)}
    ok_prog, _ = progs["pipeline ok, second consumer"]
    fail_prog = sc.pipeline(fail_until=99, timeout=50)
    fail_prog["second_consumer"] = True
    fixed = [("pipeline ok, second consumer", ok_prog, [["consume2"], ["release", "a", "s0", 0, 0], ["advance", 50000, "timeout"]]),
             ("pipeline ok, second consumer", ok_prog, [["release", "a", "s0", 0, 0], ["consume2"], ["advance", 50000, "timeout"]]),
             ("pipeline ok, second consumer", ok_prog, [["consume2"], ["release", "a", "s0", 0, 0], ["cancel"]]),
             ("pipeline ok, second consumer", ok_prog, [["consume2"], ["release", "a", "s0", 0, 0], ["release", "b", "s0>a", 0, 0]]),
             ("pipeline fail, second consumer", fail_prog, [["consume2"], ["release", "a", "s0", 0, 0], ["release", "b", "s0>a", 0, 0]])]
    for (label, prog, sched) in fixed:
        s_ = en.EngineSystem(prog)
        try:
            s_.start("s0")
            for c in sched:
                s_.apply(list(c))
            items.append((label, prog, [], list(s_.trace), sched))
        finally:
            s_.close()
    eg.standard_run(chk, "C04", None, {"pub", "stream", "stream_end", "outcome", "quiet"}, key_of=key_of,
                    nontrivial=nontrivial, items=items)
