"""C11 -- replaying the recorded tick log reproduces the live run state."""
from harness.checks import _engine as eg

LEVEL = "model_checking"
RULE = ("every on_tick of every explored execution (all scenario families) is one comparison of the live runner state with "
        "the real rebuild_state_from_ticks(init_state, ticks so far); non-trivial = executions in which the state "
        "changed at some tick (all of them); distinct by (scenario, schedule)")


def run(chk):
    eg.standard_run(chk, "C11", ["fanout", "collect", "wait", "handlers", "routing"], {"tick"},
                    keep=lambda r: "rebuilt" in r)
    chk.add(ticks_compared=0)
