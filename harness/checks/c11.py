"""C11 -- replaying the recorded tick log reproduces the live run state."""
from harness.checks import _engine as eg

LEVEL = "model_checking"
RULE = ("every on_tick of every explored execution (all scenario families) is one comparison of the live runner state with "
        "the real rebuild_state_from_ticks(init_state, ticks so far); non-trivial = executions in which the state "
        "changed at some tick (all of them); distinct by (scenario, schedule)")


def run(chk):
    import random
    from harness.drivers import engine_traces as et
    from harness.programs import scenarios as sc
    items = eg.collect(chk, ["fanout", "collect", "wait", "handlers", "routing"])
    # "... including resumed runs": snapshot mid-run (several invocations in progress), resume, keep comparing
    rng = random.Random(chk.seed)
    for (label, prog) in [("fanout(2,3)+resume", sc.fanout(2, 3, 2, 0, 1)), ("fanout(3,4)+resume", sc.fanout(3, 4, None, 0, 0)),
                          ("collector+resume", sc.collector(2, ("A", "A"), 3))]:
        for (tr, sched) in et.explore(prog, max_depth=chk.pick(3, 5), max_paths=chk.pick(8, 60), rng=random.Random(rng.random()),
                                      drain=False, timeout_advance=False):
            tr2 = et.replay_then_resume(prog, list(sched))
            items.append((label, prog, (), tr2, list(sched) + [["snapshot+resume"]]))
    # a follow-up run on the SAME context after its run has ended while other work was still in flight (a racing StopEvent):
    # the new run's initial state carries that work, and the live engine and the replay must treat it alike
    for (label, prog) in [("double_stop+reuse", sc.double_stop(2)), ("racing_stop+reuse", sc.racing_writers("cancel"))]:
        for (tr, sched) in et.explore(prog, max_depth=chk.pick(6, 8), max_paths=chk.pick(10, 60), rng=random.Random(rng.random()),
                                      drain=False, timeout_advance=False):
            tr2 = et.replay_then_reuse(prog, list(sched))
            if tr2 is not None:
                items.append((label, prog, (), tr2, list(sched) + [["reuse_context"]]))
    eg.standard_run(chk, "C11", None, {"tick", "inspect"}, keep=lambda r: r["e"] == "inspect" or "rebuilt" in r, items=items)
    chk.add(ticks_compared=0)
