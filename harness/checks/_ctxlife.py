"""CtxLife.tla (the public life cycle of a Context / WorkflowHandler pair across runs): design-level checks and the
spec -> code replay.  Evidence attached to C12 (to_dict / from_dict / run(ctx=...) are this life cycle's edges); a
mismatch is conformance drift (a note), never a verdict."""
from __future__ import annotations

from harness import tlc
from harness.core import SPECS, Machinery

OPS = {"Run": "run", "Finish": "finish", "Fail": "fail", "Cancel": "cancel", "Timeout": "timeout", "ToDict": "to_dict",
       "FromDict": "from_dict", "RunningSteps": "running_steps", "IsRunning": "is_running", "Send": "send",
       "StepApi": "step_api", "Result": "result", "Stream": "stream"}


def run(chk):
    from harness.drivers import ctx_life as drv
    wd = chk.work / "ctxlife"
    wd.mkdir(parents=True, exist_ok=True)
    dump = wd / "g"
    main = "ascoded" if chk.quick else "ascoded_thorough"
    res = tlc.run(SPECS / "engine/CtxLife.tla", SPECS / ("engine/MC_CtxLife_%s.cfg" % main), workdir=wd, deadlock=False,
                  workers=1, dump=dump, jvm_opts=tlc.LIGHT)
    chk.record_tlc("CtxLife/" + main, res)
    if res.violated:
        chk.note("CtxLife.tla (%s) violates %s" % (main, res.violated))
        return
    chk.require_tlc_ok("CtxLife/" + main, res)
    for cfg, expect in (("design", None), ("sanity", "Act_OneExecutionPerRun")):
        r = tlc.run(SPECS / "engine/CtxLife.tla", SPECS / ("engine/MC_CtxLife_%s.cfg" % cfg), workdir=wd, deadlock=False,
                    workers=2, jvm_opts=tlc.LIGHT)
        chk.record_tlc("CtxLife/" + cfg, r, count=False)
        if expect:
            if r.violated != expect:
                raise Machinery("sanity run CtxLife/%s: expected a violation of %s, got %s" % (cfg, expect, r.violated or r.error))
        elif r.violated or r.error:
            chk.note("CtxLife.tla (%s): %s" % (cfg, r.violated or r.error))
    g = tlc.load_dot(str(dump) + ".dot")
    g.edges.sort()
    paths = tlc.covering_paths(g, max_len=12)
    limit = chk.pick(400, 6000)
    if len(paths) > limit:
        step = len(paths) / float(limit)
        paths = [paths[int(i * step)] for i in range(limit)]
    nedges = mism = 0
    first = None
    for p in paths:
        s = drv.System()
        try:
            done = []
            for (src, dst, label) in p:
                want = g.state(dst)
                op = want["last"]["op"]            # every action records its name (TLC labels some by a helper operator)
                if op not in OPS.values():
                    raise Machinery("unknown CtxLife operation " + op)
                r = s.op(op)
                done.append(op)
                nedges += 1
                got = {"res": r["res"], "face": r["post"]["face"], "run": r["post"]["run"], "n": r["post"]["store"]}
                exp = {"res": want["last"]["res"], "face": want["face"], "run": want["run"], "n": want["st"]["n"]}
                if got != exp:
                    mism += 1
                    if first is None:
                        first = {"ops": list(done), "model": exp, "real": got}
                    break
        finally:
            s.close()
    if first:
        chk.note("spec->code replay drift (CtxLife): %s" % str(first)[:500])
    chk.add(ctxlife_paths_replayed=len(paths), ctxlife_edges_compared=nedges, ctxlife_mismatches=mism)
