"""C16 -- the stored event log is gap-free and resumable from any cursor.

1. TLC checks EventLog.tla exhaustively (safety + liveness under weak fairness) for every interleaving of
   appends, consumer pulls, wake-ups, poll time-outs and reconnects, all cursors -1..n, terminal events at
   any position, for the three subscription styles of the code (memory / sqlite / polling default);
   as-is variant (Dev_MemCursorByIndex = TRUE, with the carve-out KF_BeyondEnd) and strict variant.
   Two sanity runs must FAIL: the non-atomic append variant (duplicate sequence numbers) and the as-is
   memory variant against the strict invariant (the known cursor-beyond-end behaviour).
2. Covering paths of the dumped state graphs are projected onto driver schedules and executed on the real
   MemoryWorkflowStore, SqliteWorkflowStore and the polling default of AbstractWorkflowStore, under the
   virtual loop (consumer = async generator stepped by the driver, appends interleaved, virtual ticks).
3. TLC judges every recorded execution with Obs_C16 (verdict), compares memory and sqlite recordings of
   the same schedule with Obs_C16_agree (verdict) and validates them against TraceEventLog (conformance).
4. Optional API layer: `_WorkflowAPI._stream_events` is driven with small fakes for starlette's Request /
   StreamingResponse (after_sequence=<k>|now, Last-Event-ID), SSE ids are parsed and judged by Obs_C16.
"""
from __future__ import annotations

import re

from harness import tlc, tracecheck
from harness.core import SPECS, Machinery

LEVEL = "model_checking"
RULE = ("schedules = covering paths of TLC's state graph of EventLog.tla (appends incl. terminal ones, start with "
        "every cursor -1..n, pulls, poll ticks, reconnects), each executed batch-wise as in the path and command "
        "by command, on the memory store, the sqlite store and the polling default; non-trivial = a consumer "
        "started with a cursor >= 0 / after events existed, or blocked at least once")

_LAB = re.compile(r'^(\w+)(?:\((.*)\))?$')


def _parse_label(label):
    m = _LAB.match(label.strip())
    if not m:
        return None, []
    args = [a.strip().strip('"') for a in m.group(2).split(",")] if m.group(2) else []
    return m.group(1), args


def path_to_schedule(labels):
    """Project a sequence of spec actions onto driver batches (flush at Resume: the loop ran)."""
    from harness.drivers.event_log import cmd
    sched, batch = [], []
    for lab in labels:
        act, a = _parse_label(lab)
        if act == "AppendEv":
            batch.append(cmd("append", a[0], 1 if a[1] == "TRUE" else 0))
        elif act == "Start":
            batch.append(cmd("start", a[0], int(a[1])))
        elif act == "Pull":
            # a consumer awaits its pull before pulling again: the loop runs in between
            if any(c["op"] == "pull" and c["u"] == a[0] for c in batch):
                sched.append(batch)
                batch = []
            batch.append(cmd("pull", a[0]))
        elif act == "Reconnect":
            batch.append(cmd("reconnect", a[0]))
        elif act == "Tick":
            batch.append(cmd("tick"))
        elif act == "Resume":
            if batch:
                sched.append(batch)
                batch = []
    if batch:
        sched.append(batch)
    return sched


def stepwise(sched):
    return [[c] for b in sched for c in b]


def _sig(sched):
    return repr([[(c["op"], c["u"], c["n"]) for c in b] for b in sched])


def _nontrivial(tr):
    for e in tr:
        for s in e["post"]["subs"].values():
            if s["pc"] == "waiting":
                return True
        for c in e["cmds"]:
            if c["op"] == "start" and c["n"] >= 0:
                return True
            if c["op"] == "reconnect":
                return True
    return False


def _tlc(chk, name, cfg, dump=None, expect_violation=None):
    res = tlc.run(SPECS / "server/MC_EventLog.tla", SPECS / ("server/MC_EventLog_%s.cfg" % cfg), workdir=chk.work,
                  deadlock=False, dump=dump, workers=1 if expect_violation else (4 if chk.quick else 16),
                  extra=("-fp", "1"))          # fixed fingerprint function: state ids in the dump are reproducible
    chk.record_tlc("EventLog/" + name, res, count=expect_violation is None)
    if expect_violation:
        if res.error:
            raise Machinery("TLC run %s failed: %s" % (name, res.error))
        return res
    if res.violated:
        chk.violation("model:%s:%s" % (cfg, res.violated),
                      "the EventLog model (%s) violates %s (counterexample in replay)" % (cfg, res.violated),
                      {"cfg": cfg, "trace": res.trace})
        return res
    chk.require_tlc_ok(name, res)
    return res


def _zero(res, allowed):
    z = [a for a in res.zero_actions() if a not in allowed]
    if z:
        raise Machinery("vacuity: actions never taken: %s" % z)


def run(chk):
    from harness.drivers import event_log as drv

    # ---- 1. design level: all three styles in one run (style is chosen in Init)
    graphs = {}
    dump = chk.work / "g_asis"
    if chk.quick:
        res = _tlc(chk, "asis", "quick_asis", dump=dump)
        if res.ok:
            _zero(res, {"ReadMax", "WriteSeq"})
            graphs["asis"] = tlc.load_dot(str(dump) + ".dot")
        res = _tlc(chk, "strict", "quick_strict")
        if res.ok:
            _zero(res, {"ReadMax", "WriteSeq", "Tick"})
    else:
        # safety, 2 subscribers / 2 writers / 4 events; liveness on 2 subscribers / 3 events and on a deep
        # single-subscriber instance (5 events, 2 reconnects); strict variant; sqlite-style graph for replay
        for name, allowed in (("thorough_asis", {"ReadMax", "WriteSeq"}), ("thorough_live", {"ReadMax", "WriteSeq"}),
                              ("thorough_deep", {"ReadMax", "WriteSeq"}), ("thorough_strict", {"ReadMax", "WriteSeq", "Tick"})):
            res = _tlc(chk, name, name)
            if res.ok:
                _zero(res, allowed)
        res = _tlc(chk, "mid_sqlite", "mid_sqlite", dump=dump)
        if res.ok:
            graphs["asis"] = tlc.load_dot(str(dump) + ".dot")
    # sanity: the invariants bite
    res = _tlc(chk, "nonatomic", "nonatomic", expect_violation=True)
    if res.violated != "Inv_C16_strict":
        raise Machinery("sanity: a non-atomic append should violate Inv_C16_strict (duplicate sequences), got %s" % res.violated)
    kf = _tlc(chk, "kf", "kf", expect_violation=True)
    if kf.violated != "Inv_C16_strict":
        raise Machinery("sanity: the as-is memory model should violate the strict invariant, got %s" % kf.violated)

    stores = drv.Stores(chk.work)
    try:
        _bind(chk, drv, stores, graphs, kf)
    finally:
        stores.close()


def _bind(chk, drv, stores, graphs, kf):
    subs = ["s1"] if chk.quick else ["s1", "s2"]
    BACK = ("memory", "sqlite", "poll")

    # ---- 2. schedules: TLC's witness of the known deviation first, then covering paths of the state graph
    wit = stepwise(path_to_schedule([s["action"] for s in kf.trace[1:]])) + [[drv.cmd("pull", "s1")]]
    # (paths of the sqlite style use the whole command alphabet incl. ticks; the same commands are then issued
    #  to every back end, so the memory- and poll-style paths of the graph would only repeat them)
    limit = chk.pick(100000, 5000)
    scheds, seen = [], set()
    for gname, g in graphs.items():
        g.edges.sort()                                   # file order depends on TLC's worker scheduling
        paths = [p for p in tlc.covering_paths(g, max_len=40) if g.state(p[0][0])["style"] == "sqlite"]
        if len(paths) > limit:
            step = len(paths) / float(limit)
            paths = [paths[int(i * step)] for i in range(limit)]
        for n, p in enumerate(paths):
            sc = path_to_schedule([e[2] for e in p])
            for variant in ((sc, stepwise(sc)) if n % 3 == 0 else (sc,)):
                k = _sig(variant)
                if variant and k not in seen:
                    seen.add(k)
                    scheds.append(variant)
    chk.add(schedules=len(scheds))

    # ---- 3. the real stores
    singles = [{"kind": "single", "style": "memory", "ev": drv.run_schedule(stores, "memory", subs, wit)[0]}]
    pairs = []
    n_handoff = 0
    for n, sc in enumerate(scheds):
        per = {}
        for b in BACK:
            if (b == "poll" and n % 3) or drv.LIVELOCKS.get(b, 0) >= 2:
                per[b] = ([], 0)
                continue
            # the polling default only progresses on ticks: put one after every batch
            sc_b = [bt + [drv.cmd("tick")] for bt in sc] if b == "poll" else sc
            tr, errs = drv.run_schedule(stores, b, subs, sc_b)
            per[b] = (tr, len(singles))
            if tr:
                singles.append({"kind": "single", "style": b, "ev": tr})
            if errs and len(chk.notes) < 5:
                chk.note("driver saw exception(s) on %s: %s" % (b, errs[:2]))
        if per["memory"][0] and per["sqlite"][0]:
            pairs.append({"kind": "pair", "a": per["memory"][0], "b": per["sqlite"][0],
                          "ia": per["memory"][1], "ib": per["sqlite"][1]})
        # the log belongs to the DATABASE, not to a store object: the same schedule with the appends alternating between
        # two store objects on one file and the readers on a third (no cross-object notification: judged like the polling
        # default, one tick after every batch)
        if n % 4 == 0 and drv.LIVELOCKS.get("sqlite_handoff", 0) < 2:
            tr, errs = drv.run_schedule(stores, "sqlite_handoff", subs, [bt + [drv.cmd("tick")] for bt in sc])
            if tr:
                singles.append({"kind": "single", "style": "handoff", "ev": tr})
                n_handoff += 1
            if errs and len(chk.notes) < 5:
                chk.note("driver saw exception(s) on sqlite_handoff: %s" % errs[:2])

    # API layer: a third of the schedules, command by command, through _WorkflowAPI._stream_events
    from harness.drivers import event_api
    modes = ("query", "header", "now")
    n_api = 0
    for n, sc in enumerate(scheds):
        if n % 3:
            continue
        for b in ("memory", "sqlite"):
            if drv.LIVELOCKS.get(b, 0) >= 2:
                continue
            tr, errs = event_api.run_schedule(stores, b, subs, stepwise(sc), modes[(n // 3) % 3])
            if tr:
                singles.append({"kind": "single", "style": "api_" + b, "ev": tr, "api": 1})
                n_api += 1
            if errs and len(chk.notes) < 5:
                chk.note("API driver saw exception(s) on %s: %s" % (b, errs[:2]))
    chk.add(api_level_executions=n_api, handoff_executions=n_handoff)

    total = nontriv = matched = 0
    CH = 6000
    verd = {}
    allt = singles + pairs
    for off in range(0, len(allt), CH):
        chunk = allt[off:off + CH]
        v, _ = tracecheck.observe(chk, "obs/Obs_C16.tla", "obs/Obs_C16.cfg", {"subs": subs, "traces": chunk},
                                  name="obs_%d" % off)
        for i in range(1, len(chunk) + 1):
            verd[off + i - 1] = v[i]
    dev_mem = verd[0][0] == "above_cursor"          # does the code still exhibit the known deviation?
    chk.add(deviation_Dev_MemCursorByIndex_exhibited=bool(dev_mem))

    for idx, t in enumerate(singles):
        total += 1
        clause, l = verd[idx][0], verd[idx][1]
        feat = verd[idx][2] if len(verd[idx]) > 2 else "-"
        tr, b = t["ev"], t["style"]
        if clause != "ok":
            key = "obs:%s:%s" % (clause, b) + (":" + feat if feat != "-" else "")
            chk.violation(key, "%s store: execution violates clause '%s' at event %s (%s)" % (b, clause, l, feat),
                          {"backend": b, "schedule": [e["cmds"] for e in tr], "trace": tr[: (l or 0)]})
        if _nontrivial(tr):
            nontriv += 1
    for j, pr in enumerate(pairs):
        idx = len(singles) + j
        total += 1
        clause, l = verd[idx][0], verd[idx][1]
        if clause != "ok":
            mo, so = verd[pr["ia"]], verd[pr["ib"]]
            # cause: the memory recording itself shows the cursor-beyond-end delivery no later than the divergence
            if mo[0] == "above_cursor" and mo[2] == "cursor_beyond_end" and so[0] == "ok" and (mo[1] or 0) <= (l or 0):
                cause = "memory_cursor_beyond_end"
            else:
                cause = "unexplained"
            chk.violation("obs:backends_agree:" + cause,
                          "memory and sqlite stores differ at event %s of the same schedule (%s)" % (l, cause),
                          {"schedule": [e["cmds"] for e in pr["a"]], "memory": pr["a"][: (l or 0)],
                           "sqlite": pr["b"][: (l or 0)]})

    # conformance of every recording to the implementation-shaped spec
    stores_only = [t for t in singles if not t.get("api")]
    for off in range(0, len(stores_only), CH):
        chunk = stores_only[off:off + CH]
        # (several store objects on one file behave like the polling style of EventLog.tla: no notification reaches the reader)
        as_model = [dict(t, style="poll") if t["style"] == "handoff" else t for t in chunk]
        reached, res = tracecheck.conform(chk, "server/TraceEventLog.tla", "server/TraceEventLog.cfg",
                                          {"subs": subs, "dev": bool(dev_mem), "traces": as_model},
                                          name="trace_%d" % off, workers=8)
        if res.violated:
            chk.note("conformance: model invariant %s fails on an inferred step of a real trace" % res.violated)
        for i, t in enumerate(chunk, 1):
            tr = t["ev"]
            if reached.get(i, 0) == len(tr):
                matched += 1
            elif not res.violated and len(chk.notes) < 10:
                chk.note("conformance drift (%s): trace %d matched %d/%d events; first unmatched cmds %s" % (
                    t["style"], off + i, reached.get(i, 0), len(tr), tr[reached.get(i, 0)]["cmds"]))
    mid = singles[len(singles) // 2]
    chk.sample({"backend": mid["style"],
                "schedule": [[(c["op"], c["u"], c["n"]) for c in e["cmds"]] for e in mid["ev"]],
                "final": mid["ev"][-1]["post"]})

    chk.add(evaluations=total, distinct_nontrivial=nontriv, traces_validated_against_impl=matched)
    chk.exhaustive = chk.quick
    chk.assumptions += [
        "one asyncio loop: append_event has no suspension point between reading the last sequence and writing "
        "(read from the code; AtomicAppend=FALSE shows what the model finds otherwise); multi-process writers on one "
        "sqlite file rely on SQLite's statement atomicity and are not exercised",
        "virtual loop keeps asyncio's FIFO callback order; poll time-outs fire only on driver ticks",
        "events are EventEnvelopeWithMetadata built by the driver; terminal = 'StopEvent' in type/types, as the stores test it",
        "API layer: starlette is not installed -- Request/StreamingResponse/HTTPException are harness fakes, the "
        "routing/ASGI part is not run; API recordings are judged by Obs_C16 but not matched against EventLog.tla "
        "(the SSE feeder task prefetches from the store subscription)",
        "sqlite files live on tmpfs when /dev/shm is available (fsync durability is not a subject of C16)",
        "thorough tier: the 2-subscriber state graph is sampled (evenly spaced covering paths) for replay; "
        "TLC's check of the model itself is exhaustive",
    ]
