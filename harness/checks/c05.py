"""C05 -- retry budgets count attempts and elapsed time correctly."""
from harness.checks import _engine as eg

LEVEL = "model_checking"
RULE = ("programs = pipeline with an always-failing (or failing-k-times) step under stop_after_attempt(n in 0..3) x fixed "
        "delay, typed retry conditions (retryable / non-retryable exception), stop_after_delay(d), and a catch_error "
        "handler receiving the StepFailedEvent; BasicRuntime clocks (monotonic adapter clock, wall clock in the step "
        "wrapper; different epochs as in reality); non-trivial = at least one retry happened or the budget was 0/1")


def pol(prog, tr):
    b = prog["steps"]["b"]
    r = b.get("retry") or {}
    f = [o for o in b["body"] if o["op"] == "fail"][0]
    exc = f.get("exc", "ValueError")
    return {"pol": {"step": "b", "n": -1 if r.get("max") is None else int(r["max"]),
                    "d_ms": -1 if r.get("stop_delay") is None else int(r["stop_delay"] * 1000),
                    "retryable": bool(r) and (not r.get("retry_on") or exc in r["retry_on"]),
                    "always": f.get("until", 0) >= 99}}


def keep(r):
    if r["e"] == "step_end":
        r["failed"] = r["how"].startswith("raise:")
        r["exc"] = r["how"].split(":", 1)[1] if r["failed"] else "none"
    if r["e"] == "pub":
        return r["p"]["k"] == "failed"
    return True


def key_of(clause, label, prog, tr, l):
    if clause in ("retry_info_elapsed_wrong", "reported_elapsed_wrong", "stopped_before_delay_elapsed"):
        # cause feature: the mismatch is the distance between the two clock epochs
        return "obs:%s:monotonic_vs_wall_clock" % clause
    return "obs:" + clause


def nontrivial(tr):
    return sum(1 for r in tr if r["e"] == "step_start" and r["step"] == "b") >= 1


def run(chk):
    eg.standard_run(chk, "C05", ["retry"], {"step_start", "step_end", "pub"}, key_of=key_of, nontrivial=nontrivial,
                    extra=pol, keep=keep, collect_kw=dict(paths_q=14, paths_t=40, walks_q=4, walks_t=12, timeout_advance=False, sleep_ms=1000))
