"""C30 -- num_concurrent_runs=N: at most N runs of one workflow instance execute, every started run
eventually executes, separate instances have independent limits.

1. TLC checks RunLimit.tla (per-instance asyncio.Semaphore with CPython 3.12 FIFO/hand-off semantics,
   runs start -> acquire -> exec -> release, abort of queued runs) exhaustively for N in {1,2}
   (thorough: 3,4) with 4 (6) runs on 2 instances: limit, value accounting, no lost wake-up, clean-up,
   independence (action property) and liveness under weak fairness.
2. Real Workflow instances (one gated step) on one real BasicRuntime are explored exhaustively under
   the virtual loop (batches of start/finish/cancel commands at quiescence points, pruned on the
   projected state); schedules projected from TLC's state graph are added.
3. Every recorded execution is validated by TLC against TraceRunLimit.tla (conformance, the model's
   invariants evaluated on every inferred step) and judged by Obs_C30.tla (verdict).
"""
from __future__ import annotations

import re
from concurrent.futures import ThreadPoolExecutor

from harness import tlc, tracecheck
from harness.core import SPECS, Machinery

LEVEL = "model_checking"
RULE = ("schedules = batches of start/finish/cancel(queued run) commands over 4-6 runs of 2 workflow instances with "
        "num_concurrent_runs N in 1..4, issued at quiescence points of the virtual loop; exhaustive DFS on the real "
        "BasicRuntime pruned on the projected state, plus schedules projected from TLC's state graph; non-trivial = "
        "more runs of an instance were started than its limit (some run had to wait)")

# small TLC jobs (tiny models, trace batches): JIT level 1 and few GC/compiler threads cut the JVM's CPU use
# to a third on a loaded machine; large thorough models override this with the default JVM settings
LIGHT_JVM = "-XX:TieredStopAtLevel=1 -XX:ParallelGCThreads=2 -XX:CICompilerCount=1 -Xmx3g"

RUNS4 = ["r1", "r2", "r3", "r4"]
INST4 = {"r1": "w1", "r2": "w1", "r3": "w1", "r4": "w2"}
RUNS6 = ["r1", "r2", "r3", "r4", "r5", "r6"]
INST6 = {"r1": "w1", "r2": "w1", "r3": "w1", "r4": "w1", "r5": "w1", "r6": "w2"}
CONFIGS = {
    "n1": (RUNS4, INST4, {"w1": 1, "w2": 1}),
    "n2": (RUNS4, INST4, {"w1": 2, "w2": 1}),
    "t3": (RUNS6, INST6, {"w1": 3, "w2": 1}),
    "t4": (RUNS6, INST6, {"w1": 4, "w2": 2}),
    "g3": (RUNS4, INST4, {"w1": 3, "w2": 1}),          # generations only (no contention on w1)
}


def _graph_schedules(g, limit, max_len):
    lab = re.compile(r'^(\w+)\("?(\w+)"?\)$')
    scheds = []
    for path in tlc.covering_paths(g, max_len=max_len):
        sched, batch = [], []
        for (src, dst, label) in path:
            m = lab.match(label)
            if not m:
                continue
            act, r = m.group(1), m.group(2)
            if act in ("Start", "Finish", "Fail", "Cancel"):
                c = [act.lower(), r]
                if any(b[1] == r for b in batch):
                    sched.append(batch)
                    batch = []
                batch.append(c)
            elif batch:
                sched.append(batch)
                batch = []
        if batch:
            sched.append(batch)
        if sched:
            scheds.append(sched)
        if len(scheds) >= limit:
            break
    return scheds


def _nontrivial(tr):
    return any(v == "waiting" for e in tr for v in e["post"]["pc"].values())


def run(chk):
    import os
    os.environ["JAVA_TOOL_OPTIONS"] = LIGHT_JVM
    from harness.drivers import run_limit as drv

    names = ["n1", "n2"] if chk.quick else ["n1", "n2", "t3", "t4"]

    def model(name):
        wd = chk.work / ("tlc_" + name)
        dump = (wd / "g") if name in ("n1", "n2") else None
        return name, tlc.run(SPECS / "sync/MC_RunLimit.tla", SPECS / ("sync/MC_RunLimit_%s.cfg" % name), workdir=wd,
                             deadlock=False, workers=(2 if name in ("n1", "n2") else 8), dump=dump, extra=("-fp", "1"),
                             env=({} if name in ("n1", "n2") else {"JAVA_TOOL_OPTIONS": "-Xmx8g"}))

    ex = ThreadPoolExecutor(max_workers=len(names))
    futs = [ex.submit(model, n) for n in names]

    # ---- the real runtime, explored while TLC checks the models
    impl = {}
    for name in names:
        runs, instof, limit = CONFIGS[name]
        if name in ("n1", "n2"):
            impl[name] = drv.explore(runs, instof, limit, max_batch=chk.pick(2, 3), max_cancel=1)
        else:
            impl[name] = drv.explore(runs, instof, limit, max_batch=1, max_cancel=1, max_traces=4000)
            chk.exhaustive = False

    graphs = {}
    for f in futs:
        name, res = f.result()
        chk.record_tlc("RunLimit/" + name, res)
        if res.violated:
            chk.violation("model:" + res.violated,
                          "the RunLimit design model violates %s (counterexample in replay)" % res.violated,
                          {"cfg": name, "trace": res.trace})
            continue
        chk.require_tlc_ok(name, res)
        z = res.zero_actions()
        if z:
            raise Machinery("vacuity: actions never taken in %s: %s" % (name, z))
        if name in ("n1", "n2"):
            g = tlc.load_dot(str(chk.work / ("tlc_" + name) / "g") + ".dot")
            g.edges.sort()
            g.init.sort()
            graphs[name] = g
    ex.shutdown()

    total = nontriv = matched = 0
    batches = {}
    for name in names:
        runs, instof, limit = CONFIGS[name]
        traces = list(impl[name])
        n_impl, n_model = len(traces), 0
        g = graphs.get(name)
        if g is not None:
            for sched in _graph_schedules(g, chk.pick(150, 3000), 40):
                tr = drv.run_schedule(runs, instof, limit, sched, filter_enabled=True)
                if tr:
                    traces.append(tr)
                    n_model += 1
        batches[name] = {"runs": runs, "insts": sorted(limit), "instof": instof, "limit": limit, "traces": traces}
        chk.add(impl_explored=n_impl, model_projected=n_model)

    # ---- histories across object and loop lifetimes on ONE runtime (the module-level basic_runtime lives as long as the
    #      process): instances with different limits die and are followed by new ones (the allocator hands their
    #      addresses out again), and the same instances are used with contention from successive event loops
    order = ["n1", "g3", "n1", "n2", "g3", "n2", "n1"] * chk.pick(2, 10)
    gens, histories = [], []

    def generations(plan, **kw):
        gens.extend(drv.generations(plan, **kw))
        histories.append(drv.generations.last_history)

    generations([(n,) + CONFIGS[n] for n in order])
    generations([("n1",) + CONFIGS["n1"]] * 3 + [("n2",) + CONFIGS["n2"]] * 3)
    for cfgname in ("n1", "n2", "g3"):
        generations([(cfgname,) + CONFIGS[cfgname]] * 3, reuse_instances=True)
    # the histories against RunLimitGen.tla (the semaphore table across lifetimes), and its design-level check
    for cfg, expect in (("design" if chk.quick else "design_thorough", None), ("strongdict", "Inv_EntryIsOwn"),
                        ("strongdict_limit", "Inv_OwnLimit")):
        r_ = tlc.run(SPECS / "sync/MC_RunLimitGen.tla", SPECS / ("sync/MC_RunLimitGen_%s.cfg" % cfg),
                     workdir=chk.work / ("tlc_gen_" + cfg), deadlock=False, workers=4)
        chk.record_tlc("RunLimitGen/" + cfg, r_, count=expect is None)
        if expect:
            if r_.violated != expect:
                raise Machinery("sanity run RunLimitGen/%s: expected a violation of %s, got %s" % (cfg, expect, r_.violated or r_.error))
        elif r_.violated:
            chk.violation("model:gen:" + r_.violated, "the RunLimitGen design model violates %s" % r_.violated,
                          {"cfg": cfg, "trace": r_.trace})
        else:
            chk.require_tlc_ok("RunLimitGen/" + cfg, r_)
    hb = {"insts": ["w1", "w2"], "naddr": max(h["naddr"] for h in histories), "traces": [h["lines"] for h in histories]}
    reached_h, res_h = tracecheck.conform(chk, "sync/TraceRunLimitGen.tla", "sync/TraceRunLimitGen.cfg", hb, name="trace_gen")
    ok_h = sum(1 for i, h in enumerate(histories, 1) if reached_h.get(i, 0) == len(h["lines"]))
    if res_h.violated:
        chk.note("conformance: RunLimitGen invariant %s fails on a recorded history" % res_h.violated)
    for i, h in enumerate(histories, 1):
        k = reached_h.get(i, 0)
        if k != len(h["lines"]) and not res_h.violated:
            chk.note("conformance drift (RunLimitGen): history %d matched %d/%d lines; first unmatched %s" % (
                i, k, len(h["lines"]), h["lines"][k]))
    chk.add(lifetime_histories_validated=ok_h, lifetime_history_lines=sum(len(h["lines"]) for h in histories))
    ngen = nreuse = 0
    for (name, tr, reused) in gens:
        if name not in batches:
            runs, instof, limit = CONFIGS[name]
            batches[name] = {"runs": runs, "insts": sorted(limit), "instof": instof, "limit": limit, "traces": []}
        batches[name]["traces"].append(tr)
        ngen += 1
        nreuse += 1 if reused else 0
    chk.add(generations_on_one_runtime=ngen, generations_with_a_reused_address=nreuse)
    names = names + [n for n in ("g3",) if n in batches and n not in names]

    def judge(name):
        b = batches[name]
        obs = tracecheck.observe(chk, "obs/Obs_C30.tla", "obs/Obs_C30.cfg", b, name="obs_" + name)
        con = tracecheck.conform(chk, "sync/TraceRunLimit.tla", "sync/TraceRunLimit.cfg", b, name="trace_" + name)
        return name, obs, con

    with ThreadPoolExecutor(max_workers=len(names)) as ex2:
        judged = list(ex2.map(judge, names))

    for name, (verdicts, _), (reached, res) in judged:
        runs, instof, limit = CONFIGS[name]
        traces = batches[name]["traces"]
        if res.violated:
            chk.note("conformance: model invariant %s fails on an inferred step of a real trace (%s)" % (res.violated, name))
        seen = set()
        for i, tr in enumerate(traces, 1):
            total += 1
            clause, l = verdicts[i][0], verdicts[i][1]
            if clause != "ok":
                chk.violation("obs:" + clause,
                              "num_concurrent_runs=%s: execution violates clause '%s' at event %s" % (limit, clause, l),
                              {"instof": instof, "limit": limit, "schedule": [e["cmds"] for e in tr],
                               "trace": tr[: (l or 0) + 1]})
            if reached.get(i, 0) == len(tr):
                matched += 1
            elif not res.violated and len(chk.notes) < 8:
                k = reached.get(i, 0)
                chk.note("conformance drift (%s): trace %d matched %d/%d events; first unmatched cmds %s -> %s" % (
                    name, i, k, len(tr), tr[k]["cmds"], tr[k]["post"]["pc"]))
            sig = repr([e["cmds"] for e in tr])
            if _nontrivial(tr) and sig not in seen:
                seen.add(sig)
                nontriv += 1
        mid = traces[len(traces) // 2]
        chk.sample({"limit": limit, "schedule": [e["cmds"] for e in mid], "final": mid[-1]["post"]["pc"],
                    "max_inside": mid[-1]["post"]["max_inside"]})
    chk.add(evaluations=total, distinct_nontrivial=nontriv, traces_validated_against_impl=matched)
    if getattr(chk, "exhaustive", None) is None:
        chk.exhaustive = True
    chk.assumptions += [
        "asyncio.Semaphore internals (_value/_waiters) and BasicRuntime._max_concurrent_runs are read for the "
        "conformance projection only; verdicts use harness-owned step bodies and handler completion",
        "hard abort (handler.cancel()) is applied only to runs still queued on the semaphore: aborting an executing run "
        "is outside the statement's start/finish quantifier",
        "llama_index_instrumentation is the inert shim; virtual loop keeps asyncio's callback order",
    ]
