"""C08 -- exhausted failures route to the owning error handler within budget."""
from harness.checks import _engine as eg

LEVEL = "model_checking"
RULE = ("programs = handler layouts {none, scoped, wildcard, both} x max_recoveries {1,2} x validation {on, off} x handler "
        "that stops / fails itself / re-emits the failing input (lineage re-entry); non-trivial = a step exhausted its retries")


def keep(r):
    if r["e"] == "step_end":
        r["failed"] = r["how"].startswith("raise:")
        r["exc"] = r["how"].split(":", 1)[1] if r["failed"] else "none"
    if r["e"] == "pub":
        return r["p"]["k"] == "failed"
    return True


def run(chk):
    eg.standard_run(chk, "C08", ["handlers"], {"step_start", "step_end", "pub"}, keep=keep,
                    nontrivial=lambda tr: any(r["e"] == "step_end" and r["how"].startswith("raise:") for r in tr),
                    collect_kw=dict(paths_q=6, paths_t=30, walks_q=2, walks_t=10))
