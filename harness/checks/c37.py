"""C37 -- llamactl never activates a profile the user did not pick in that environment.

1. TLC checks Llamactl.tla exhaustively (full reachable state graph = operation sequences of every
   length over default + 2 environments (thorough: default + 3 for the code as it is) and 2 profile names):
   the intended design (strict C37), the code as it is (C37 outside the known failure shape), the code as it is restricted
   to the operations the CLI composes (strict C37), and -- as a witness -- that strict C37 is refuted
   for the code as it is.
2. The real ConfigManager / EnvService / AuthService run on a private LLAMACTL_CONFIG_DIR:
   (a) implementation-driven: breadth-first exploration of the real system, every operation of the
       alphabet applied at every distinct state found (pruned on the projected state plus which of the
       existing profiles count as picked), state restored from the bytes of profiles.db -- exhaustive
       (all reachable states) for a sub-alphabet (quick: default + 1 environment, 1 name; thorough:
       default + 2 environments, 1 name), plus the shallowest states of the full alphabet;
   (b) model-driven: TLC's state graph of the small instance is dumped and its edges are replayed on
       the real code, state by state (quick: the shallowest states plus a seeded sample; thorough: every edge);
   (c) fixed histories: the witness of the known finding and its CLI-only variant, run without the
       harness's synchronous=OFF shortcut.
3. Every recorded history is judged by Obs_C37.tla and validated step by step against
   TraceLlamactl.tla by TLC.
"""
from __future__ import annotations

import random
import re
from concurrent.futures import ThreadPoolExecutor

from harness import tlc, tracecheck
from harness.core import SPECS, Machinery

LEVEL = "model_checking"
RULE = ("histories = (a) every operation of the alphabet (env add/switch/delete, create by token/oidc, select, "
        "select-any, logout, update, ConfigManager create/delete with explicit environment) applied at every "
        "distinct state of a breadth-first exploration of the real system (exhaustive for a sub-alphabet), (b) covering paths through TLC's state "
        "graph of the default+1-environment instance (every edge in thorough), (c) fixed witnesses; non-trivial = an environment delete/switch/add "
        "or a profile delete happened after a profile had been selected or created")

ENVS = ["e0", "e1", "e2"]
NAMES = ["n1", "n2"]
KF_PREFIX = "obs:active_picked:"


def alphabet(envs, names):
    ops = []
    for e in envs:
        ops += [["env_add", e], ["env_switch", e], ["env_delete", e]]
    for n in names:
        ops += [["create_token", n], ["oidc", n], ["select", n], ["logout", n], ["update", n]]
    ops.append(["select_any"])
    for n in names:
        for e in envs:
            ops += [["cm_create", n, e], ["cm_delete", n, e]]
    return ops


_LABEL = re.compile(r'^(\w+)(?:\((.*)\))?$')
_ACT2OP = {"EnvAdd": "env_add", "EnvSwitch": "env_switch", "EnvDelete": "env_delete", "CreateToken": "create_token",
           "Oidc": "oidc", "Select": "select", "SelectAny": "select_any", "Logout": "logout", "Update": "update",
           "CmCreate": "cm_create", "CmDelete": "cm_delete"}


def label_to_op(label):
    m = _LABEL.match(label)
    if not m or m.group(1) not in _ACT2OP:
        return None
    args = [a.strip().strip('"') for a in m.group(2).split(",")] if m.group(2) else []
    return [_ACT2OP[m.group(1)]] + args


def _mirror_picked(picked, pre, op, ret, ret_id):
    """Python mirror of the observer's bookkeeping, used ONLY to decide which states of the real system are
    worth expanding again (never for a verdict)."""
    live = {p["id"] for p in pre["profiles"]}
    pk = {x for x in picked if x[0] in live}
    if ret == "ok":
        k = op[0]
        if k in ("create_token", "oidc", "select"):
            pk.add((ret_id, pre["cur_env"]))
        elif k == "select_any":
            pk |= {(p["id"], pre["cur_env"]) for p in pre["profiles"] if p["e"] == pre["cur_env"]}
        elif k == "cm_create" and op[2] == pre["cur_env"]:
            pk.add((ret_id, pre["cur_env"]))
    return pk


def _state_key(obs, picked):
    ids = {p["id"]: (p["n"], p["e"]) for p in obs["profiles"]}
    return repr((obs["cur_env"], obs["env_rows"], obs["stored"],
                 sorted((p["n"], p["e"], p["oidc"]) for p in obs["profiles"]),
                 sorted(ids[i] + (e,) for (i, e) in picked if i in ids)))


def explore_impl(sysm, init, init_obs, ops, max_states, max_depth):
    """(a) breadth-first over the real system.  One trace per expanded state: the path that reached it plus
    the fan of all operations applied to it (state restored from the bytes of profiles.db each time)."""
    seen = {_state_key(init_obs, set()): 0}
    queue = [(init, init_obs, [], set())]     # snapshot, observation, path events, mirror-picked
    traces = []
    qi = 0
    while qi < len(queue) and len(traces) < max_states:
        snap, obs, path, picked = queue[qi]
        qi += 1
        if len(path) >= max_depth:
            continue
        fan = []
        for op in ops:
            sysm.restore(snap)
            ret, rid = sysm.apply(op)
            post = sysm.observe()
            ev = {"op": op, "ret": ret, "ret_id": rid, "post": post}
            fan.append(ev)
            pk = _mirror_picked(picked, obs, op, ret, rid)
            key = _state_key(post, pk)
            if key not in seen:
                seen[key] = len(path) + 1
                queue.append((sysm.snapshot(), post, path + [ev], pk))
        traces.append({"init": init_obs, "events": path, "fan": fan})
    exhausted = qi >= len(queue)
    return traces, len(seen), exhausted


def replay_model_graph(sysm, g, init_snap, init_obs, max_states, rng):
    """(b) the edges of TLC's state graph, replayed on the real code: breadth-first over the MODEL's states;
    at each one the real system is put into the corresponding state (bytes reached along the BFS tree) and
    every outgoing edge's operation is applied.  With max_states < |graph| the first half of the budget goes
    to the shallowest states and the rest to a seeded sample of the others."""
    succ = {s: sorted(v, key=lambda x: x[1]) for s, v in g.succ().items()}   # by label: independent of TLC's ids/order
    order, parent = list(g.init), {s: None for s in g.init}
    qi = 0
    while qi < len(order):
        s = order[qi]
        qi += 1
        for (d, lab) in succ.get(s, ()):
            if d not in parent:
                parent[d] = (s, lab)
                order.append(d)
    if max_states >= len(order):
        chosen = list(order)
    else:
        head = order[: max_states // 2]
        rest = order[max_states // 2:]
        rng.shuffle(rest)
        chosen = head + rest[: max_states - len(head)]
    cache = {}      # model state -> (snapshot, observation, path events)

    def reach(s):
        if s in cache:
            return cache[s]
        if parent[s] is None:
            cache[s] = (init_snap, init_obs, [])
            return cache[s]
        ps, lab = parent[s]
        snap, obs, path = reach(ps)
        sysm.restore(snap)
        op = label_to_op(lab)
        ret, rid = sysm.apply(op)
        post = sysm.observe()
        cache[s] = (sysm.snapshot(), post, path + [{"op": op, "ret": ret, "ret_id": rid, "post": post}])
        return cache[s]

    import sys
    sys.setrecursionlimit(max(sys.getrecursionlimit(), 10000))
    traces, n_edges = [], 0
    for s in chosen:
        snap, obs, path = reach(s)
        fan = []
        for (d, lab) in succ.get(s, ()):
            op = label_to_op(lab)
            if op is None:
                raise Machinery("unreadable action label in the state graph: %r" % lab)
            sysm.restore(snap)
            ret, rid = sysm.apply(op)
            fan.append({"op": op, "ret": ret, "ret_id": rid, "post": sysm.observe()})
            n_edges += 1
        traces.append({"init": init_obs, "events": path, "fan": fan})
    return traces, n_edges, len(order)


def run_history(sysm, init_snap, init_obs, ops):
    sysm.restore(init_snap)
    evs = []
    for op in ops:
        ret, rid = sysm.apply(op)
        evs.append({"op": op, "ret": ret, "ret_id": rid, "post": sysm.observe()})
    return {"init": init_obs, "events": evs, "fan": []}


def _nontrivial(events):
    armed = False
    for e in events:
        k = e["op"][0]
        if e["ret"] == "ok" and k in ("create_token", "oidc", "select", "select_any"):
            armed = True
        elif armed and k in ("env_delete", "env_switch", "env_add", "logout", "cm_delete") and e["ret"] in ("ok", "true"):
            return True
    return False


WITNESS = [["env_add", "e1"], ["cm_create", "n1", "e0"], ["create_token", "n1"], ["env_delete", "e1"]]
CLI_ONLY = [["create_token", "n1"], ["env_add", "e1"], ["create_token", "n1"], ["env_delete", "e1"]]
FIXED = [WITNESS, CLI_ONLY,
         [["env_add", "e1"], ["oidc", "n2"], ["env_switch", "e0"], ["select_any"], ["env_delete", "e0"], ["select_any"]],
         [["cm_create", "n2", "e1"], ["env_add", "e1"], ["select", "n2"], ["cm_delete", "n2", "e0"], ["env_delete", "e1"],
          ["cm_create", "n2", "e0"]]]


def run(chk):
    from harness.drivers import llamactl as drv

    # ---- 1. design level: all TLC runs start now and finish while the real code is being explored
    if chk.quick:
        jobs = [("graph", "graph", True, ()), ("code", "code", False, ()), ("design2", "design2", False, ()),
                ("code_strict", "code_strict", False, None)]
    else:
        jobs = [("graph", "graph", True, ()), ("code4", "code4", False, ()), ("design", "design", False, ()),
                ("cli", "cli", False, ("CmCreate", "CmDelete")), ("code_strict", "code_strict", False, None)]

    def _tlc(job):
        name, cfg, dump, ignore = job
        d = chk.work / ("g_" + name) if dump else None
        return tlc.run(SPECS / "config/MC_Llamactl.tla", SPECS / ("config/MC_Llamactl_%s.cfg" % cfg),
                       workdir=chk.work / ("tlc_" + name), deadlock=False, dump=d,
                       workers=chk.pick(4, 6), coverage=ignore is not None, timeout=1500, extra=("-fp", "0"))

    pool = ThreadPoolExecutor(max_workers=len(jobs))
    futures = {j[0]: pool.submit(_tlc, j) for j in jobs}

    # ---- 2. the real code
    # (c) fixed histories first, with SQLite's default synchronous setting (no harness shortcut)
    sysm = drv.System(chk.work, envs=ENVS, names=NAMES, fast_sync=False)
    init_snap, init_obs = sysm.snapshot(), sysm.observe()
    traces, origin = [], []
    for h in FIXED:
        traces.append(run_history(sysm, init_snap, init_obs, h))
        origin.append("fixed")
    wit = traces[0]["events"][-1]["post"]
    dev = wit["active"]["n"] == "n1" and wit["active"]["e"] == "e0"      # does the code still show the deviation?
    sysm.close()

    sysm = drv.System(chk.work, envs=ENVS, names=NAMES, fast_sync=True)
    init_snap, init_obs = sysm.snapshot(), sysm.observe()
    # (a) implementation-driven exploration: exhaustive for a sub-alphabet (every reachable state of the real
    #     system x every operation), then the shallowest states of the full alphabet
    sub_envs, sub_names = (ENVS[:2], NAMES[:1]) if chk.quick else (ENVS, NAMES[:1])
    impl, n_states, exhausted = explore_impl(sysm, init_snap, init_obs, alphabet(sub_envs, sub_names), max_states=10 ** 9, max_depth=10 ** 9)
    wide, n_states2, _ = explore_impl(sysm, init_snap, init_obs, alphabet(ENVS, NAMES), max_states=chk.pick(40, 200), max_depth=10 ** 9)
    impl += wide
    n_states += n_states2
    traces += impl
    origin += ["impl"] * len(impl)

    # (b) model-driven: the edges of TLC's state graph
    res = futures["graph"].result()
    chk.record_tlc("Llamactl/graph", res)
    if res.violated:
        chk.violation("model:graph:" + res.violated, "Llamactl.tla (graph instance) violates " + res.violated,
                      {"trace": res.trace})
    chk.require_tlc_ok("graph", res, allow_violation=True)
    n_model = n_edges = n_graph_states = 0
    if not res.violated:
        g = tlc.load_dot(str(chk.work / "g_graph") + ".dot")
        mtr, n_edges, n_graph_states = replay_model_graph(sysm, g, init_snap, init_obs, chk.pick(60, 10 ** 9),
                                                          random.Random(chk.seed))
        traces += mtr
        origin += ["model"] * len(mtr)
        n_model = len(mtr)
    sysm.close()

    # ---- 3. TLC judges the recorded histories
    tolerate = sorted({k["key"][len(KF_PREFIX):] for k in chk.known if k["key"].startswith(KF_PREFIX)})
    batch = {"env_ids": ENVS, "names": NAMES, "default": ENVS[0], "dev": bool(dev), "tolerate": tolerate,
             "traces": traces}
    with ThreadPoolExecutor(max_workers=2) as ex:
        f1 = ex.submit(tracecheck.observe, chk, "obs/Obs_C37.tla", "obs/Obs_C37.cfg", batch, name="obs_c37", workers=1)
        f2 = ex.submit(tracecheck.conform, chk, "config/TraceLlamactl.tla", "config/TraceLlamactl.cfg", batch,
                       name="trace_c37", workers=1)
        verdicts, ores = f1.result()
        reached, cres = f2.result()

    # remaining model-checking results (they ran while the real code was explored and judged)
    for name, cfg, dump, ignore in jobs:
        if name == "graph":
            continue
        r = futures[name].result()
        if ignore is None:
            chk.record_tlc("Llamactl/code_strict(witness)", r, count=False)
            if r.error:
                chk.require_tlc_ok(name, r)
            model_refutes_strict = bool(r.violated)
            continue
        chk.record_tlc("Llamactl/" + name, r)
        if r.violated:
            chk.violation("model:%s:%s" % (name, r.violated), "Llamactl.tla (%s) violates %s" % (name, r.violated),
                          {"cfg": cfg, "trace": r.trace})
            continue
        chk.require_tlc_ok(name, r)
        z = r.zero_actions(ignore=ignore)
        if z:
            raise Machinery("vacuity: actions never taken in %s: %s" % (name, z))
    pool.shutdown()

    def _hist(tr, upto):
        return [{"op": e["op"], "ret": e["ret"], "cur_env": e["post"]["cur_env"], "stored": e["post"]["stored"],
                 "active": [e["post"]["active"]["n"], e["post"]["active"]["e"]],
                 "profiles": [[p["n"], p["e"]] for p in e["post"]["profiles"]]} for e in tr["events"][:upto]]

    def _events(tid, pos):
        """The history ending at position pos of trace tid (path index, or path length + alternative)."""
        tr = traces[tid - 1]
        n = len(tr["events"])
        return tr["events"][:pos] if pos <= n else tr["events"] + [tr["fan"][pos - n - 1]]

    kf_hist = 0
    for v in ores.prints:
        if isinstance(v, tuple) and len(v) >= 5 and v[0] == "KF":
            tid, pos, clause, cause = v[1], v[2], v[3], v[4]
            kf_hist += 1
            h = _events(tid, pos)
            chk.violation("obs:%s:%s" % (clause, cause),
                          "after %s the active profile %s was never selected or created while its environment was current" % (
                              h[-1]["op"], h[-1]["post"]["active"]), {"history": _hist({"events": h}, len(h))})
    # every path and every alternative got its own verdict line
    n_hist = 0
    judged = set()
    for v in ores.prints:
        if isinstance(v, tuple) and len(v) >= 5 and v[0] == "VERDICT":
            tid, clause, pos, cause = v[1], v[2], v[3], v[4]
            judged.add((tid, pos if pos > len(traces[tid - 1]["events"]) else 0))
            if clause != "ok":
                h = _events(tid, pos)
                chk.violation("obs:%s:%s" % (clause, cause),
                              "llamactl history violates clause '%s' after operation %s (event %d): current env %s, active %s" % (
                                  clause, h[-1]["op"], len(h), h[-1]["post"]["cur_env"], h[-1]["post"]["active"]),
                              {"history": _hist({"events": h}, len(h))})
    matched = nontriv = 0
    alt_ok = {(v[1], v[2]) for v in cres.prints if isinstance(v, tuple) and len(v) >= 3 and v[0] == "A"}
    seen = set()
    for i, tr in enumerate(traces, 1):
        n = len(tr["events"])
        path_ok = reached.get(i, 0) == n
        hists = [(0, tr["events"])] if not tr["fan"] else [(j, tr["events"] + [alt]) for j, alt in enumerate(tr["fan"], 1)]
        for j, h in hists:
            n_hist += 1
            if (i, 0) not in judged or (j and (i, n + j) not in judged and verdicts[i][0] == "ok"):
                raise Machinery("observer gave no verdict for history %d/%d" % (i, j))
            if path_ok and (j == 0 or (i, j) in alt_ok):
                matched += 1
            elif len(chk.notes) < 10:
                k = reached.get(i, 0) if not path_ok else n
                chk.note("conformance drift (%s history %d/%d): matched %d/%d events; first unmatched %s -> ret %s" % (
                    origin[i - 1], i, j, k, len(h), h[k]["op"], h[k]["ret"]))
            sig = repr([e["op"] for e in h])
            if sig not in seen:
                seen.add(sig)
                if _nontrivial(h):
                    nontriv += 1
    if dev and not model_refutes_strict:
        chk.note("the code shows the delete_environment deviation but the model (code_strict) does not refute C37")
    if not dev:
        chk.note("delete_environment no longer leaves a stale current_profile on this tree: "
                 "Dev_DeleteEnvKeepsProfile = FALSE is the variant bound to the code")
    chk.add(evaluations=n_hist, distinct_nontrivial=nontriv, traces_validated_against_impl=matched,
            impl_states_found=n_states, impl_states_expanded=len(impl), impl_exploration_exhausted=bool(exhausted),
            impl_transitions=sum(len(t["fan"]) for t in impl), model_states_replayed=n_model,
            model_edges_replayed=n_edges, model_graph_states=n_graph_states,
            histories_with_known_finding=kf_hist, code_follows_dev_variant=bool(dev))
    for idx in (0, 1, len(FIXED) + len(impl) // 2, len(traces) - 1):
        tr = traces[idx]
        h = tr["events"] + tr["fan"][-1:]
        chk.sample({"origin": origin[idx], "history": [[e["op"], e["ret"], e["post"]["cur_env"], e["post"]["active"]["n"],
                                                        e["post"]["active"]["e"]] for e in h]})
    chk.exhaustive = bool(exhausted) or (n_model == n_graph_states and n_model > 0)
    chk.assumptions += [
        "stubbed, not verified: llama_agents.cli package __init__ (CLI/TUI stack), llama_agents.cli.auth.client, "
        "llama_agents.core.client.manage_client; no operation used reaches the network (profiles carry no api_key_id)",
        "operations are the user-level ones the CLI composes plus ConfigManager.create_profile/delete_profile with an "
        "explicit environment (used like that by the package's own tests); raw settings setters, renaming/moving a "
        "profile via update_profile and AuthService objects bound to a non-current environment are out of scope",
        "'selected or created while that environment was current' is read as a history property of the profile (by id); "
        "select_any_profile may choose any profile of the current environment",
        "connections opened by _config run with PRAGMA synchronous=OFF during bulk replay (fixed witnesses run with the default)",
    ]
