"""C07 -- retry building blocks obey their algebra and bounds.

Function-table flavour (DESIGN 5/C07):
1. TLC enumerates condition / strategy trees (MC_RetryAlgebra.tla for retry and stop conditions,
   MC_WaitStrategies.tla for waits): all atoms over the argument grid, combinator trees of depth <= 1
   (thorough: arity 3 everywhere and depth 2), and checks the laws of the statement on the tables
   themselves (or/and/operator = named combinator/units; 0 <= w <= documented max, clamping, sum,
   determinism of non-jittered trees, totality with the known overflow deviation carved out).
2. The harness builds every enumerated tree from the REAL constructors and operators (|, &, +, sum(),
   positional/keyword/timedelta/default-argument variants), evaluates it on concretised inputs (real
   exception objects with __cause__/__context__ chains and several message representatives per class;
   (attempts, elapsed, upcoming_sleep); (k, seed)) and records booleans / floor,ceil(1000 v) / finite /
   same-seed-twice bits.
3. TLC (Obs_C07.tla) judges the recorded values: the laws on the returned values of a node and of its
   parts, the documented bounds from WaitStrategies!WAtomB, determinism; atom semantics of retry/stop
   conditions and the wait_chain index are compared as conformance only (not in the statement).
"""
from __future__ import annotations

import threading
from collections import Counter

from harness import tlc
from harness.core import SPECS, Machinery
from harness.drivers import _obslib

LEVEL = "model_checking"
RULE = ("vectors = (tree, abstract input) pairs: trees enumerated by TLC (all atoms x argument grid, combinator "
        "trees to depth 1 quick / 2 thorough, arity 0..3, constructor and operator forms), inputs = exception "
        "(class x message class x cause chain x context) / (attempts, elapsed, sleep) / (k, seed) grids; "
        "non-trivial iff the tree has >= 1 combinator")

BIGK = 2000


def _plain(v):
    """tlaval value -> plain python (tuples -> lists, records stay dicts)."""
    if isinstance(v, dict):
        return {k: _plain(x) for k, x in v.items()}
    if isinstance(v, (tuple, list)):
        return [_plain(x) for x in v]
    if isinstance(v, frozenset):
        return sorted((_plain(x) for x in v), key=repr)
    return v


def _key(t):
    return (t["op"], tuple(t.get("sargs", ())), tuple(t.get("iargs", ())), tuple(_key(k) for k in t["kids"]))


class Table:
    """Node table: every distinct (sub)tree x variant is built once from the real API and evaluated."""

    def __init__(self, kind, drv, inputs):
        self.kind, self.drv, self.inputs = kind, drv, inputs
        self.index, self.nodes, self.objs, self.abstract = {}, [], [], []

    def intern(self, t, variant=0):
        kid_ids = [self.intern(k) for k in t["kids"]]
        key = (_key(t), variant)
        if key in self.index:
            return self.index[key]
        tt = dict(t, _kind=self.kind)
        node = {"op": t["op"], "sargs": list(t.get("sargs", ())), "iargs": list(t.get("iargs", ())),
                "kids": [i + 1 for i in kid_ids], "variant": variant, "built": 1, "exc": "-"}
        try:
            obj = self.drv.build(tt, [self.objs[i] for i in kid_ids], variant)
        except Exception as e:      # the real API refused to build a tree the table says is constructible
            obj, node["built"], node["exc"] = None, 0, type(e).__name__
        if obj is None:
            node["vals"] = [[0, 0, 0, 0, 0] if self.kind == "wait" else 2 for _ in self.inputs]
        elif self.kind == "wait":
            node["vals"], node["exc"] = self.drv.eval_wait(obj, [d for d in self.inputs], reseed=len(self.nodes) + 1)
        else:
            node["vals"] = self.drv.eval_bool(obj, self.kind, self.inputs)
        self.index[key] = len(self.nodes)
        self.nodes.append(node)
        self.objs.append(obj)
        self.abstract.append(t)
        return self.index[key]


def _depth(t):
    return 0 if not t["kids"] and t["op"] not in COMB else 1 + max([_depth(k) for k in t["kids"]] + [0])


COMB = {"any", "all", "or", "and", "combine", "plus", "sum", "chain"}


def run(chk):
    from harness.drivers import c07_retry as drv
    drv.self_check()
    tier = chk.tier
    fast = chk.pick(_obslib.FAST_JVM, _obslib.LONG_JVM)
    runs = {
        "retry": ("tables/MC_RetryAlgebra.tla", "tables/MC_RetryAlgebra_retry_%s.cfg" % tier),
        "stop": ("tables/MC_RetryAlgebra.tla", "tables/MC_RetryAlgebra_stop_%s.cfg" % tier),
        "wait": ("tables/MC_WaitStrategies.tla", "tables/MC_WaitStrategies_%s.cfg" % tier),
    }
    if not chk.quick:   # the intended design (clamp on overflow) satisfies totality strictly
        runs["wait_strict"] = ("tables/MC_WaitStrategies.tla", "tables/MC_WaitStrategies_strict.cfg")
    results = {}

    def mc(name):
        mod, cfg = runs[name]
        results[name] = tlc.run(SPECS / mod, SPECS / cfg, workdir=chk.work / name, workers=chk.pick(2, 6),
                                deadlock=False, jvm_opts=fast)

    ths = [threading.Thread(target=mc, args=(n,)) for n in runs]
    for t in ths:
        t.start()
    for t in ths:
        t.join()

    trees, inputs = {}, {}
    for name in runs:
        res = results[name]
        chk.record_tlc("C07/" + name, res, count=(name != "wait_strict"))
        if res.violated:
            chk.violation("model:%s:%s" % (name, res.violated),
                          "the %s table violates %s (a law of the statement fails on the specification itself)" % (
                              name, res.violated), {"run": name, "trace": res.trace})
            continue
        chk.require_tlc_ok(name, res)
        z = res.zero_actions()
        if z:
            raise Machinery("vacuity: actions never taken in %s: %s" % (name, z))
        if name == "wait_strict":
            continue
        ts = []
        for v in res.prints:
            if not isinstance(v, tuple) or not v:
                continue
            if v[0] in ("T", "W"):
                ts.append(_plain(v[1]))
            elif v[0] == "INPUTS":
                inputs[name] = _plain(v[1])
            elif v[0] == "KS":
                ks, seeds = sorted(v[1]), sorted(v[3])
                inputs[name] = [{"k": k, "seed": s} for k in ks for s in seeds]
        if 2 * len(ts) != res.distinct:
            raise Machinery("%s: %d trees printed but %d states" % (name, len(ts), res.distinct))
        ts.sort(key=lambda t: (_depth(t), repr(_key(t))))
        trees[name] = ts

    total_eval = total_vec = nontriv = conf_ok = 0
    built = {}
    for kind in ("retry", "stop", "wait"):
        if kind not in trees:
            continue
        ab = inputs[kind]
        if kind == "retry":
            ab.sort(key=lambda x: (x["cls"], x["msg"], x["causes"], x["ctx"]))
            conc = drv.retry_inputs(ab)
        elif kind == "stop":
            ab.sort(key=lambda y: (y["att"], y["el"], y["sl"]))
            conc = drv.stop_inputs(ab)
        else:
            ab.sort(key=lambda d: (d["k"] == BIGK, d["k"], d["seed"]))      # huge attempt counts last
            conc = ab
        tab = Table(kind, drv, conc)
        for t in trees[kind]:
            for v in (drv.variants_of(t) if not t["kids"] else [0]):
                tab.intern(t, v)
        batch = {"kind": kind, "inputs": [c[0] for c in conc] if kind != "wait" else conc, "nodes": tab.nodes}
        built[kind] = (ab, conc, tab, batch)

    obs, errs = {}, []

    def ob(kind):
        try:
            obs[kind] = _obslib.observe(chk, "obs/Obs_C07.tla", "obs/Obs_C07.cfg", built[kind][3], libs=["tables"],
                                        name="obs_" + kind, workers=chk.pick(2, 6), jvm=fast, traces_key="nodes",
                                        record=False)
        except Exception as e:      # re-raised in the main thread
            errs.append(e)

    ths = [threading.Thread(target=ob, args=(k,)) for k in built]
    for t in ths:
        t.start()
    for t in ths:
        t.join()
    if errs:
        raise errs[0]

    for kind, (ab, conc, tab, batch) in built.items():
        verdicts, ores = obs[kind]
        chk.record_tlc("obs_" + kind, ores, count=False)
        n_comb = sum(1 for t in trees[kind] if t["op"] in COMB)
        total_vec += len(trees[kind]) * len(ab)
        nontriv += n_comb * len(ab)
        total_eval += len(tab.nodes) * len(conc)
        clause_count, drift = Counter(), Counter()
        mixed = 0
        for i, node in enumerate(tab.nodes, 1):
            clause, l, feature, conf, cl, nbad = verdicts[i]
            clause_count[clause] += 1
            if kind != "wait" and len(set(node["vals"])) > 1:
                mixed += 1
            if kind == "wait" and any(v[1] != v[2] for v in node["vals"]):
                mixed += 1
            if not node["built"]:
                chk.violation("obs:not_constructible:%s:%s" % (node["op"], node["exc"]),
                              "the real API raised %s while building a %s tree" % (node["exc"], node["op"]),
                              {"tree": tab.abstract[i - 1], "variant": node["variant"]})
                continue
            if conf == "ok":
                conf_ok += 1
            else:
                drift[conf] += 1
                if drift[conf] <= 2:
                    chk.note("conformance drift (%s): %s variant %d returned %s on input %s; the table expected otherwise"
                             % (conf, _show(tab.abstract[i - 1]), node["variant"],
                                node["vals"][cl - 1], batch["inputs"][cl - 1]))
            if clause != "ok":
                key = "obs:%s:%s" % (clause, feature)
                inp = batch["inputs"][l - 1]
                what = "%s tree %s (variant %d): clause '%s' fails on input %s: returned %s; parts returned %s" % (
                    kind, _show(tab.abstract[i - 1]), node["variant"], clause, inp, node["vals"][l - 1],
                    [tab.nodes[k - 1]["vals"][l - 1] for k in node["kids"]])
                known = any(k["key"] == key for k in chk.known)
                if known or clause_count[clause] <= 5:
                    chk.violation(key, what, {"kind": kind, "tree": tab.abstract[i - 1], "variant": node["variant"],
                                              "input": inp, "returned": node["vals"][l - 1], "bad_inputs": nbad})
                else:
                    chk.violations.append({"key": key, "what": "(repeat) " + what, "replay": ""})
        if mixed == 0:
            raise Machinery("vacuity: no %s node ever changed its value over the inputs" % kind)
        chk.add(**{"trees_" + kind: len(trees[kind]), "nodes_" + kind: len(tab.nodes),
                   "abstract_inputs_" + kind: len(ab), "concrete_inputs_" + kind: len(conc),
                   "verdicts_" + kind: dict(clause_count), "drift_" + kind: dict(drift)})
        mid = tab.nodes[len(tab.nodes) * 2 // 3]
        chk.sample({"kind": kind, "tree": _show(tab.abstract[len(tab.nodes) * 2 // 3]), "variant": mid["variant"],
                    "first_values": mid["vals"][:6]})
    chk.add(evaluations=total_eval, distinct_vectors=total_vec, distinct_nontrivial=nontriv,
            traces_validated_against_impl=conf_ok)
    chk.exhaustive = True
    chk.assumptions += [
        "claimed for the integer/rational grid of MC_WaitStrategies.tla / MC_RetryAlgebra.tla only: float parameters "
        "outside the grid, NaN/inf parameters and non-dyadic bases are not enumerated; values are compared in 1/1000 s",
        "parameter domain: time parameters >= 0 except where a docstring promises clamping (wait_exponential.min, "
        "wait_incrementing.start/increment); wait_random_exponential with a negative min returns negative delays and is "
        "outside the documented domain, not reported",
        "atom semantics of retry/stop conditions and the wait_chain index are conformance evidence, not verdicts "
        "(the statement speaks about the combinators, the wait bounds and determinism)",
        "seed=None draws come from the module-level RNG, reseeded per node by the harness for reproducibility",
    ]


def _show(t):
    a = list(t.get("sargs", ())) + list(t.get("iargs", ()))
    if t["kids"]:
        return "%s(%s)" % (t["op"], ", ".join(_show(k) for k in t["kids"]))
    return "%s%s" % (t["op"], a if a else "")
