"""C28 -- SQLite schema migrations converge from any earlier schema.

1. TLC checks Migrations.tla exhaustively: the property as stated on the code as it is (all start states:
   fresh, every prefix recorded in schema_migrations, every legacy user_version; three runs), the
   intended design with crashes between any two statement groups (strict C28), the code as it is with
   crashes (C28 outside the known failure shape), and -- as a witness -- that the strict invariant is
   refuted for the code as it is once a crash may hit the legacy bootstrap.
2. Real SQLite files are built in every start state (prefix databases by the real run_migrations over
   the first k real SQL files; legacy databases in two construction styles; and -- independent of what the
   tree's files say today -- the databases that the migration texts AS RELEASED (harness/data/c28_released)
   leave behind after versions 1..k, recorded and legacy style), the real run_migrations
   is run three times (new connection per call / one connection / two alternating connections;
   thorough: also through SqliteWorkflowStore.run_migrations), and it is killed right before every one
   of its SQL statements -- the database file and its WAL are copied aside from inside sqlite3's
   statement trace callback, which is what the disk holds if the process dies there (checked against
   real fork + os._exit kills for a sample of points) -- and, again, inside the re-run; two more runs
   follow each kill.  Crash schedules enumerated by TLC (state graph of the crash model, covering paths)
   are concretised to statement indices and executed as well.
3. Every recorded trace is judged by Obs_C28.tla and validated against TraceMigrations.tla by TLC.
"""
from __future__ import annotations

import random
import re
from pathlib import Path

from harness import tlc, tracecheck
from harness.core import SPECS, Machinery

LEVEL = "model_checking"
RULE = ("start states = fresh + every recorded prefix 0..N + every legacy user_version 1..N (two construction "
        "styles) built from the tree's migration files + the databases the RELEASED migration texts 1..k leave "
        "behind (recorded and legacy style) x connection mode, three runs each; plus a kill before every SQL statement of the real run "
        "(and, thorough, a second kill before every statement of the re-run) followed by two runs; plus crash "
        "schedules from TLC's state graph. Every trace is non-trivial (DESIGN 5.0: all); distinct = distinct "
        "(start, schedule)")

PINNED = (4, [1, 4])     # (N, Idem) the static cfg files are written for


def _cfg(chk, name, n, idem):
    """Static cfg for the pinned tree; regenerated with measured constants if the migrations changed."""
    src = SPECS / "stores" / ("MC_Migrations_%s.cfg" % name)
    if (n, idem) == PINNED:
        return src
    txt = src.read_text()
    txt = re.sub(r"N = \d+", "N = %d" % n, txt)
    txt = txt.replace("Idem <- Idem4", "Idem = {%s}" % ", ".join(str(x) for x in idem))
    dst = SPECS / "stores" / (".gen_MC_Migrations_%s.cfg" % name)
    dst.write_text(txt)
    return dst


# ------------------------------------------------------------------ statement classes <-> model pcs

def classify(stmts):
    """Model program counter (pc, version) in front of each SQL statement of a real run."""
    out = []
    seeding = False
    cur_v = None
    in_script = False
    for s in stmts:
        t = s.strip()
        up = t.upper()
        if up.startswith("PRAGMA JOURNAL_MODE") or up.startswith("SELECT 1 FROM SQLITE_MASTER") or \
                up.startswith("PRAGMA USER_VERSION") or up.startswith("CREATE TABLE IF NOT EXISTS SCHEMA_MIGRATIONS"):
            out.append(("boot", 0))
        elif up.startswith("INSERT OR IGNORE INTO SCHEMA_MIGRATIONS"):
            seeding = True
            out.append(("seedcommit", 0))          # inside the seed transaction: nothing durable yet
        elif up.rstrip(";").strip() == "BEGIN" and not t.endswith(";"):
            out.append(("seed", 0))                # Python's implicit BEGIN in front of the first seed INSERT
        elif up.startswith("COMMIT"):
            if seeding and not in_script:
                out.append(("seedcommit", 0))
                seeding = False
            else:
                out.append(("commit", cur_v))
                in_script = False
        elif up.startswith("SELECT VERSION FROM SCHEMA_MIGRATIONS"):
            out.append(("select", 0))
        elif up.startswith("BEGIN;") or up == "BEGIN;":
            in_script = True
            cur_v = None
            out.append(("loop", None))             # version filled in below
        elif up.startswith("INSERT INTO SCHEMA_MIGRATIONS"):
            m = re.search(r"VALUES \('server', (\d+)\)", t)
            cur_v = int(m.group(1)) if m else cur_v
            out.append(("record", cur_v))
        else:
            out.append(("record", None) if in_script else ("boot", 0))
    # fill versions of script statements backwards from the INSERT that records them
    nxt = None
    for i in range(len(out) - 1, -1, -1):
        pc, v = out[i]
        if pc in ("record", "commit") and v is not None:
            nxt = v
        elif pc in ("record", "loop") and v is None:
            out[i] = (pc, nxt)
    return out


def stmt_index(classes, pc, v):
    """First statement of the real run in front of which the model's program counter is (pc, v)."""
    for i, (c, cv) in enumerate(classes):
        if c == pc and (pc in ("boot", "seed", "seedcommit", "select") or cv == v):
            return i
        if pc == "loop" and c == "loop" and cv is not None and cv >= v:
            return i            # files already recorded are skipped without a statement
    return len(classes)         # nothing left to execute: killed after the last commit


def _start_of(disk, n):
    if not disk["sm"] and disk["uv"] == 0:
        return ("fresh", 0)
    if disk["sm"]:
        return ("prefix", len(disk["schema"]))
    return ("legacy", disk["uv"])


def _model_schedules(g, limit, rng):
    """Project covering paths of the crash model's state graph onto (start, [run | crash@pc,v ...])."""
    out, seen = [], set()
    for path in tlc.covering_paths(g, max_len=200):
        if not path:
            continue
        st0 = g.state(path[0][0])
        start = _start_of(st0["disk"], None)
        sched = []
        for (src, dst, label) in path:
            act = label.split("(")[0]
            if act == "Crash":
                s = g.state(src)
                sched.append(["crash", s["pc"], int(s["v"])])
            elif act in ("Done",) or (act in ("Script", "Record") and g.state(dst)["pc"] == "idle"):
                sched.append(["run"])
        if not any(e[0] == "crash" for e in sched):
            continue
        # drop a trailing incomplete run (path ended inside a run)
        key = (start, repr(sched))
        if key in seen:
            continue
        seen.add(key)
        out.append((start, sched))
    out.sort(key=repr)
    if len(out) > limit:
        rng.shuffle(out)
        out = sorted(out[:limit], key=repr)
    return out


def run(chk):
    from harness.drivers import migrations as drv

    if chk.quick:
        drv.light_import()
    ref = drv.Reference(chk.work)
    n, idem = ref.n, ref.idem
    if ref.versions != list(range(1, n + 1)):
        raise Machinery("migration files do not carry versions 1..N in file order: %s" % ref.versions)

    # ---- 1. design level (the four TLC runs are independent: run them side by side)
    from concurrent.futures import ThreadPoolExecutor
    runs = [("stated", False, ("Crash",)), ("design", False, ("Seed", "SeedCommit")), ("code", True, ()),
            ("code_strict", False, None)]

    def _tlc(job):
        name, dump, ignore = job
        d = chk.work / ("g_" + name) if dump else None
        # the dumped run is single-worker with a fixed fingerprint polynomial: state ids and edge order (and so
        # the schedules derived from the graph) are the same in every run
        return tlc.run(SPECS / "stores/MC_Migrations.tla", _cfg(chk, name, n, idem), workdir=chk.work / ("tlc_" + name),
                       deadlock=False, dump=d, workers=1 if dump else 2, coverage=ignore is not None,
                       extra=("-fp", "0"))

    with ThreadPoolExecutor(max_workers=4) as ex:
        results = list(ex.map(_tlc, runs))
    g = None
    model_refutes_strict = False
    for (name, dump, ignore), res in zip(runs, results):
        if ignore is None:      # witness: the strict invariant must be refuted for the code as it is with crashes
            chk.record_tlc("Migrations/code_strict(witness)", res, count=False)
            if res.error:
                chk.require_tlc_ok(name, res)
            model_refutes_strict = bool(res.violated)
            continue
        chk.record_tlc("Migrations/" + name, res)
        if res.violated:
            chk.violation("model:%s:%s" % (name, res.violated),
                          "Migrations.tla (%s) violates %s" % (name, res.violated), {"cfg": name, "trace": res.trace})
            continue
        chk.require_tlc_ok(name, res)
        z = res.zero_actions(ignore=ignore)
        if z:
            raise Machinery("vacuity: actions never taken in %s: %s" % (name, z))
        if dump:
            g = tlc.load_dot(str(chk.work / ("g_" + name)) + ".dot")

    # ---- 2. the real code
    dbpath = chk.work / "m.sqlite"
    styles = ["scripts", "consolidated"]
    starts = [("fresh", 0, "-")] + [("prefix", k, "-") for k in range(0, n + 1)] + \
             [("legacy", k, s) for k in range(1, n + 1) for s in styles]
    # databases left behind by an earlier RELEASE: built from the stored released texts, not from the tree
    n_rel = len(drv.released_files())
    rel_starts = [("rel_prefix", k, "-") for k in range(1, n_rel + 1)] + [("rel_legacy", k, "scripts") for k in range(1, n_rel + 1)]
    traces, descr = [], []
    templates = {}

    def new_trace(start, mode):
        kind, k, style = start
        if start not in templates:
            t = chk.work / ("start_%s_%d_%s.sqlite" % (kind, k, style.replace("-", "x")))
            drv.build_start(t, chk.work, ref, kind, k, style)
            templates[start] = (str(t), drv.project(t, ref))
        drv.copy_db(templates[start][0], str(dbpath))
        origin = {"rel_prefix": "released_prefix", "rel_legacy": "released_legacy"}.get(kind, "tree")
        return ({"start": "%s:%d:%s:%s" % (kind, k, style, mode), "origin": origin, "pre": templates[start][1],
                 "events": []}, drv.Db(dbpath, mode))

    def do_run(tr, db):
        res, changes = db.run()
        tr["events"].append({"op": "run", "res": res, "changes": changes, "at": -1, "stmt": "-",
                             "post": drv.project(dbpath, ref)})

    def do_kill(tr, db, point):
        """The process is killed at `point` (a kill_points entry of the run from the current state)."""
        idx, stmt, snap = point
        db.restore(snap)
        tr["events"].append({"op": "crash", "res": "crashed", "changes": 0, "at": idx, "stmt": stmt[:80],
                             "post": drv.project(dbpath, ref)})

    # 2a. the stated property: every start, three runs, three connection modes (trace 1 = fresh/newconn)
    for mode in ("newconn", "sameconn", "twoconn") + (() if chk.quick else ("store",)):
        for start in starts + rel_starts:
            tr, db = new_trace(start, mode)
            try:
                for _ in range(3):
                    do_run(tr, db)
            finally:
                db.close()
            traces.append(tr)
            descr.append((start, mode, "3 runs"))
    n_stated = len(traces)

    # 2b. a kill before every statement of the real run (and after the last), then two runs;
    #     a second kill inside the re-run as well (quick: for two starts; thorough: everywhere)
    n_crash1 = n_crash2 = 0
    second_level = set()
    for start in starts + ([] if chk.quick else rel_starts):
        tr, db = new_trace(start, "newconn")
        points = db.kill_points(snapdir=str(chk.work / "snaps1"))
        for point in points:
            tr, db = new_trace(start, "newconn")
            try:
                do_kill(tr, db, point)
                post1 = tr["events"][-1]["post"]
                do_run(tr, db)
                do_run(tr, db)
            finally:
                db.close()
            traces.append(tr)
            descr.append((start, "newconn", "kill@%d" % point[0]))
            n_crash1 += 1
            sig = (start, repr((post1["feat"], post1["rows"], post1["has_sm"], post1["uv"])))
            deep = (not chk.quick) or start in (("legacy", min(3, n), "scripts"), ("fresh", 0, "-"))
            if deep and sig not in second_level:
                second_level.add(sig)
                tr2, db2 = new_trace(start, "newconn")
                db2.restore(point[2])
                points2 = db2.kill_points(snapdir=str(chk.work / "snaps2"))
                for point2 in points2:
                    tr2, db2 = new_trace(start, "newconn")
                    try:
                        do_kill(tr2, db2, point)
                        do_kill(tr2, db2, point2)
                        do_run(tr2, db2)
                        do_run(tr2, db2)
                    finally:
                        db2.close()
                    traces.append(tr2)
                    descr.append((start, "newconn", "kill@%d,kill@%d" % (point[0], point2[0])))
                    n_crash2 += 1

    # 2c. crash schedules enumerated by TLC, concretised to statement indices of the real run
    n_model = 0
    if g is not None:
        for (kind, k), sched in _model_schedules(g, chk.pick(150, 2000), random.Random(chk.seed)):
            start = (kind, k, "-" if kind != "legacy" else "scripts")
            tr, db = new_trace(start, "newconn")
            try:
                for ev in sched:
                    if ev[0] == "run":
                        do_run(tr, db)
                    else:
                        pts = db.kill_points(snapdir=str(chk.work / "snaps3"))
                        cls = classify([p[1] for p in pts[:-1]])
                        do_kill(tr, db, pts[stmt_index(cls, ev[1], ev[2])])
            finally:
                db.close()
            traces.append(tr)
            descr.append((start, "newconn", "model:" + repr(sched)))
            n_model += 1

    # 2d. real kills (fork + os._exit right before the statement) for a sample of kill points: the file
    #     snapshots used above must be what a killed process really leaves behind
    n_real_kill = 0
    # (process creation costs ~0.1-1 s in this sandbox, hence a sample: quick 2 points, thorough every statement of
    #  the legacy witness start and every other statement of the fresh start)
    for start in (("fresh", 0, "-"),) if chk.quick else (("legacy", min(3, n), "scripts"), ("fresh", 0, "-")):
        tr, db = new_trace(start, "newconn")
        points = db.kill_points(snapdir=str(chk.work / "snaps4"))
        if chk.quick:
            idxs = sorted({len(points) // 3, len(points) - 2})
        else:
            idxs = range(0, len(points) - 1, 1 if start[0] == "legacy" else 2)
        for idx in idxs:
            tr, db = new_trace(start, "newconn")
            how, info = db.crash(idx)
            real = drv.project(dbpath, ref)
            db.restore(points[idx][2])
            snap = drv.project(dbpath, ref)
            db.close()
            n_real_kill += 1
            if how != "crashed" or {k: real[k] for k in ("schema", "rows", "uv")} != {k: snap[k] for k in ("schema", "rows", "uv")}:
                raise Machinery("kill emulation unsound at %s statement %d: real kill left %s, snapshot %s" % (
                    start, idx, (how, real["feat"], real["rows"]), (snap["feat"], snap["rows"])))

    # which variant does the code follow?  replay the witness of the known failure shape with a real kill
    wit_start = ("legacy", min(3, n), "scripts")
    tr, db = new_trace(wit_start, "newconn")
    try:
        cls = classify(db.statements())
        idx = stmt_index(cls, "seedcommit", 0)
        how, info = db.crash(idx)
        tr["events"].append({"op": "crash", "res": "crashed", "changes": 0, "at": idx, "stmt": info[:80],
                             "post": drv.project(dbpath, ref)})
        do_run(tr, db)
    finally:
        db.close()
    dev = tr["events"][-1]["res"] != "ok"
    traces.append(tr)
    descr.append((wit_start, "newconn", "witness: real kill inside the seed transaction"))

    # ---- 3. TLC judges
    batch = {"n": n, "idem": idem, "versions": ref.versions, "dev": bool(dev), "traces": traces}
    with ThreadPoolExecutor(max_workers=2) as ex:
        f1 = ex.submit(tracecheck.observe, chk, "obs/Obs_C28.tla", "obs/Obs_C28.cfg", batch, name="obs_c28", workers=1)
        f2 = ex.submit(tracecheck.conform, chk, "stores/TraceMigrations.tla", "stores/TraceMigrations.cfg", batch,
                       name="trace_c28", workers=1)
        verdicts, _ = f1.result()
        reached, res = f2.result()
    matched = 0
    seen = set()
    ref_final = traces[0]["events"][0]["post"]["schema"]      # the observer's Ref (fresh database, first run)
    for i, tr in enumerate(traces, 1):
        clause, l = verdicts[i][0], verdicts[i][1]
        cause = verdicts[i][2] if len(verdicts[i]) > 2 else "-"
        if clause != "ok":
            ev = tr["events"][l - 1] if l else {}
            chk.violation("obs:%s:%s" % (clause, cause),
                          "run_migrations from start %s (%s): clause '%s' fails at event %s (result %s)" % (
                              tr["start"], descr[i - 1][2], clause, l, ev.get("res")),
                          {"start": tr["start"], "schedule": descr[i - 1][2],
                           "events": [{k: e[k] for k in ("op", "res", "at", "stmt", "changes")} for e in tr["events"]],
                           "pre": {k: tr["pre"][k] for k in ("feat", "rows", "uv", "has_sm")},
                           "failing_post": {k: ev.get("post", {}).get(k) for k in ("feat", "rows", "uv", "has_sm")},
                           "schema_missing_vs_fresh": sorted(set(ref_final) - set(ev.get("post", {}).get("schema", []))),
                           "schema_extra_vs_fresh": sorted(set(ev.get("post", {}).get("schema", [])) - set(ref_final))})
        if reached.get(i, 0) == len(tr["events"]):
            matched += 1
        elif len(chk.notes) < 10:
            chk.note("conformance drift: trace %d (%s, %s) matched %d/%d events" % (
                i, tr["start"], descr[i - 1][2], reached.get(i, 0), len(tr["events"])))
        seen.add((tr["start"], descr[i - 1][2]))
    if dev and not model_refutes_strict:
        chk.note("the code shows the interrupted-bootstrap failure but the model (code_strict) does not refute C28")
    if not dev:
        chk.note("the interrupted legacy bootstrap no longer fails on this tree: Dev_BootstrapNotAtomic = FALSE is "
                 "the variant bound to the code")
    # several migration sources in one call (the DBOS runtime on SQLite: sources=[server, dbos]); versions are per package
    two = drv.two_source_cases(chk.work, ref)
    if two:
        v2, _ = tracecheck.observe(chk, "obs/Obs_C28_sources.tla", "obs/Obs_C28_sources.cfg", {"traces": two}, name="obs_sources")
        for i, c in enumerate(two, 1):
            if v2[i][0] != "ok":
                chk.violation("obs:sources:%s:%s" % (v2[i][0], c["start"].split(":")[0]),
                              "run_migrations(sources=[server, dbos]) from start state %s: %s" % (c["start"], v2[i][0]),
                              {"start": c["start"], "error": c["err"], "rows": c["rows"], "expected_rows": c["want_rows"],
                               "missing_objects": sorted(set(c["ref"]) - set(c["final"]))[:10],
                               "extra_objects": sorted(set(c["final"]) - set(c["ref"]))[:10]})
    chk.add(two_source_start_states=len(two))
    chk.add(evaluations=len(traces) + len(two), distinct_nontrivial=len(seen) + len(two), traces_validated_against_impl=matched,
            stated_traces=n_stated, released_start_states=len(rel_starts), single_kill_traces=n_crash1, double_kill_traces=n_crash2,
            model_schedules_replayed=n_model, real_kills=n_real_kill, code_follows_dev_variant=bool(dev))
    for idx in (0, n_stated, len(traces) - 1):
        tr = traces[idx]
        chk.sample({"start": tr["start"], "schedule": descr[idx][2],
                    "events": [[e["op"], e["res"], e["post"]["feat"], e["post"]["rows"]] for e in tr["events"]]})
    chk.exhaustive = True
    chk.assumptions += [
        "harness/data/c28_released holds the migration texts as released at the pinned tree (append-only): databases "
        "built from them stand for databases in the field, whatever the tree's migration files say today",
        "a crash is a process kill (os._exit in a forked child, right before a statement): SQLite's own "
        "durability of committed transactions is trusted; power loss / torn pages are not modelled",
        "legacy user_version databases are reconstructed (no legacy migrator exists in the tree): schema of the "
        "first k real scripts, applied one by one or as one consolidated CREATE per table, plus PRAGMA user_version=k",
        "schema equality is structural (tables/columns/types/defaults/keys/indexes from PRAGMAs), not DDL text",
        "truly concurrent callers are out of scope: run_migrations takes no lock and the statement does not "
        "quantify over them; two alternating long-lived connections are covered",
    ]
