"""C25 -- KeyedLock: per-key mutual exclusion, independence, progress, cleanup.

1. TLC checks KeyedLock.tla exhaustively (safety invariants, the independence action property and
   liveness under weak fairness) for all interleavings of 3 (thorough: 4) processes on 2 keys with
   cancellation at any point.
2. The real KeyedLock is explored exhaustively under the virtual loop (all batches of driver commands
   at quiescence points, pruned on the projected state); schedules projected from TLC's state graph are
   added so that every environment-action sequence of the model was also tried on the code.
3. Every recorded execution is validated by TLC against TraceKeyedLock.tla (conformance, with the
   model's invariants evaluated at every inferred step) and judged by Obs_C25.tla (verdict).
"""
from __future__ import annotations

from harness import tlc, tracecheck
from harness.core import SPECS, Machinery

LEVEL = "model_checking"
RULE = ("schedules = batches of start/release/cancel/cancel_soon commands over the processes, issued at "
        "quiescence points of the virtual loop; exhaustive DFS on the real object pruned on the projected "
        "state, plus schedules projected from TLC's state graph; non-trivial = two processes contended for "
        "a key, or a cancel hit a waiter")

PROCS3 = ["p1", "p2", "p3"]
KEYOFS = {
    "quick": {"p1": "a", "p2": "a", "p3": "b"},
    "same": {"p1": "a", "p2": "a", "p3": "a"},
}


def _nontrivial(tr, keyof):
    for e in tr:
        pc = e["post"]["pc"]
        if any(v == "wait" for v in pc.values()):
            return True
        for c in e["cmds"]:
            if c[0].startswith("cancel"):
                return True
    return False


def _graph_schedules(g, limit):
    """Project covering paths of the model's state graph onto driver schedules."""
    import re
    scheds = []
    lab = re.compile(r'^(\w+)\("?(\w+)"?\)$')
    for path in tlc.covering_paths(g, max_len=40):
        sched, batch = [], []
        for (src, dst, label) in path:
            m = lab.match(label)
            if not m:
                continue
            act, p = m.group(1), m.group(2)
            if act in ("Start", "Release", "Cancel"):
                st = g.state(src)
                name = act.lower()
                if act == "Cancel":
                    # a cancel issued while task steps are runnable can only come from inside the loop
                    runnable = any(v in ("start", "exiting") for v in st["pc"].values()) or any(
                        w["fut"] != "pending" for ws in st["waiters"].values() for w in ws)
                    if runnable and st["pc"][p] == "wait":
                        name = "cancel_soon"
                batch.append([name, p])
            else:
                if batch:
                    sched.append(batch)
                    batch = []
        if batch:
            sched.append(batch)
        if sched:
            scheds.append(sched)
        if len(scheds) >= limit:
            break
    return scheds


def run(chk):
    from harness.drivers import keyed_lock as drv

    # ---- 1. design level: exhaustive TLC
    cfgs = ["quick", "same"] if chk.quick else ["quick", "same", "thorough"]
    graphs = {}
    for c in cfgs:
        dump = chk.work / ("g_" + c) if c != "thorough" else None
        res = tlc.run(SPECS / "sync/MC_KeyedLock.tla", SPECS / ("sync/MC_KeyedLock_%s.cfg" % c),
                      workdir=chk.work, deadlock=False, dump=dump)
        chk.record_tlc("KeyedLock/" + c, res)
        if res.violated:
            chk.violation("model:" + res.violated,
                          "the KeyedLock design model violates %s (counterexample in replay)" % res.violated,
                          {"cfg": c, "trace": res.trace})
            continue
        chk.require_tlc_ok(c, res)
        z = res.zero_actions()
        if z:
            raise Machinery("vacuity: actions never taken in %s: %s" % (c, z))
        if dump:
            graphs[c] = tlc.load_dot(str(dump) + ".dot")

    # ---- 2. the real object
    total = nontriv = matched = 0
    for name, keyof in KEYOFS.items():
        traces = drv.explore(PROCS3, keyof, max_batch=chk.pick(2, 3), max_cancel=chk.pick(2, 3))
        n_impl = len(traces)
        g = graphs.get(name)
        n_model = 0
        if g is not None:
            for sched in _graph_schedules(g, chk.pick(400, 4000)):
                s = drv.System(PROCS3, keyof)
                try:
                    tr = []
                    for batch in sched:
                        en = s.enabled()
                        ok = [c for c in batch if c in en or (c[0] == "cancel_soon" and ["cancel", c[1]] in en)]
                        if not ok:
                            continue
                        tr.append({"cmds": ok, "post": s.apply(ok)})
                finally:
                    s.close()
                if tr:
                    traces.append(tr)
                    n_model += 1
        batch = {"procs": PROCS3, "keys": ["a", "b"],
                 "keyof": keyof, "traces": traces}
        # ---- 3. TLC judges the recorded executions
        verdicts, _ = tracecheck.observe(chk, "obs/Obs_C25.tla", "obs/Obs_C25.cfg", batch, name="obs_" + name)
        reached, res = tracecheck.conform(chk, "sync/TraceKeyedLock.tla", "sync/TraceKeyedLock.cfg", batch,
                                          name="trace_" + name)
        if res.violated:
            chk.note("conformance: model invariant %s fails on an inferred step of a real trace (%s)" % (res.violated, name))
        seen = set()
        for i, tr in enumerate(traces, 1):
            total += 1
            clause, l = verdicts[i][0], verdicts[i][1]
            if clause != "ok":
                chk.violation("obs:" + clause, "KeyedLock execution violates clause '%s' at event %s" % (clause, l),
                              {"keyof": keyof, "schedule": [e["cmds"] for e in tr], "trace": tr[: (l or 0) + 1]})
            if reached.get(i, 0) == len(tr):
                matched += 1
            elif not res.violated:
                chk.note("conformance drift (%s): trace %d matched %d/%d events; first unmatched cmds %s" % (
                    name, i, reached.get(i, 0), len(tr), tr[reached.get(i, 0)]["cmds"])) if len(chk.notes) < 10 else None
            sig = repr([e["cmds"] for e in tr])
            if _nontrivial(tr, keyof) and sig not in seen:
                seen.add(sig)
                nontriv += 1
        chk.sample({"keyof": keyof, "schedule": [e["cmds"] for e in traces[len(traces) // 2]],
                    "final": traces[len(traces) // 2][-1]["post"]["pc"]})
        chk.add(impl_explored=n_impl, model_projected=n_model)
    chk.add(evaluations=total, distinct_nontrivial=nontriv, traces_validated_against_impl=matched)
    chk.exhaustive = True
    chk.assumptions += ["CPython asyncio.Lock internals (_waiters/_locked) are read for the conformance projection only; "
                        "verdicts use harness-owned critical-section bodies and KeyedLock._locks/_refs",
                        "virtual loop runs ready callbacks in asyncio's own FIFO order"]
