"""C01 -- a step never runs more invocations at once than its worker limit; distinct slots."""
from __future__ import annotations

from harness.checks import _engine as eg

LEVEL = "model_checking"
RULE = ("programs = scenario families fanout/collect/wait (nw 1..3, retries, collect re-runs, waiter replays); schedules = "
        "bounded DFS over gate releases / external sends / timer advances on the real engine (pruned on projected "
        "state) + seeded walks; non-trivial = some step had a queued event while at capacity (a PREPARING event "
        "was published)")


def nontrivial(tr):
    return any(r["e"] == "pub" and r["p"]["k"] == "state" and r["p"]["state"] == "PREPARING" for r in tr)


def run(chk):
    items = eg.collect(chk, ["fanout", "collect", "wait"])
    eg.conform_reducer(chk, items)
    verdicts = eg.observe(chk, "C01", items, {"step_start", "step_end", "pub"})
    seen = set()
    for i, (label, prog, ext, tr, sched) in enumerate(items, 1):
        clause, l = verdicts[i][0], verdicts[i][1]
        if clause != "ok":
            chk.violation("obs:" + clause, "step ran above its worker limit / slot discipline broken (%s) in %s" % (clause, label),
                          {"program": prog, "schedule": eg.sched_str(sched), "at_record": l})
        if nontrivial(tr):
            seen.add(repr(sched))
    chk.add(evaluations=len(items), distinct_nontrivial=len(seen))
    chk.sample({"program": items[0][0], "schedule": eg.sched_str(items[0][4], 12)})
    eg.model_check(chk, "C01")
