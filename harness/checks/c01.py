"""C01 -- a step never runs more invocations at once than its worker limit; distinct slots."""
from harness.checks import _engine as eg

LEVEL = "model_checking"
RULE = ("programs = scenario families fanout/collect/wait (nw 1..3, retries, collect re-runs, waiter replays); schedules = "
        "bounded DFS over gate releases / external sends / timer advances on the real engine (pruned on projected "
        "state) + seeded walks; non-trivial = some step had a queued event while at capacity (a PREPARING event "
        "was published)")


def nontrivial(tr):
    return any(r["e"] == "pub" and r["p"]["k"] == "state" and r["p"]["state"] == "PREPARING" for r in tr)


def run(chk):
    items = eg.collect(chk, ["fanout", "collect", "wait", "equal_events"])
    # one invocation feeding two collect buffers (stale snapshot of one, fresh snapshot of the other), events queued behind it
    items += eg.collect(chk, ["collect2"], paths_q=60, paths_t=400, walks_q=20, walks_t=100, depth=18)
    eg.standard_run(chk, "C01", None, {"step_start", "step_end", "pub"}, nontrivial=nontrivial, items=items)
