"""C01 -- a step never runs more invocations at once than its worker limit; distinct slots."""
from harness.checks import _engine as eg

LEVEL = "model_checking"
RULE = ("programs = scenario families fanout/collect/wait (nw 1..3, retries, collect re-runs, waiter replays); schedules = "
        "bounded DFS over gate releases / external sends / timer advances on the real engine (pruned on projected "
        "state) + seeded walks; non-trivial = some step had a queued event while at capacity (a PREPARING event "
        "was published)")


def nontrivial(tr):
    return any(r["e"] == "pub" and r["p"]["k"] == "state" and r["p"]["state"] == "PREPARING" for r in tr)


def run(chk):
    eg.standard_run(chk, "C01", ["fanout", "collect", "wait", "equal_events"], {"step_start", "step_end", "pub"}, nontrivial=nontrivial)
