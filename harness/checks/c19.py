"""C19 -- state stores implement the plain nested-dict semantics, snapshots are isolated.

1. TLC model-checks StateStore.tla per scenario family (self-consistency of the oracle: set/get
   round trip, frame, reads are pure, snapshot isolation) and *enumerates every operation sequence*
   of the family's alphabet up to its length bound, with the expected return value of every call.
2. Every enumerated sequence is applied to a fresh real InMemoryStateStore and a fresh real
   SqliteStateStore (DictState or the typed CState(PState) pair); every returned value / raised
   exception and a final probe (all gets, with and without default, and a dump) are recorded.
3. TLC (Obs_C19.tla) replays each recorded history against the plain nested-dict model and gives the
   verdict per (sequence, back end); it also names the single deviation of today's code that explains
   a failing history (the finding key) and measures how far the as-coded model reproduces the history.
"""
from __future__ import annotations

import json
from concurrent.futures import ThreadPoolExecutor
from pathlib import Path

from harness import tlc
from harness.core import SPECS, Machinery

LEVEL = "model_checking"
RULE = ("histories = ALL operation sequences of a family's alphabet up to its length bound (enumerated by "
        "TLC from StateStore.tla), each ended by a probe of every path; applied to fresh memory and SQLite "
        "stores; non-trivial = the sequence contains a successful write (set / set_state / clear / "
        "edit_state / write-back) that is followed by a read of an affected path (the probe reads all paths)")

GROUPS = {"quick": ["quick"], "thorough": ["quick", "thorough_a", "thorough_b"]}
WRITES = {"set", "setstate", "clear", "edit", "writeback"}
PROBE = {"op": "probe", "path": [], "val": {"t": "s", "v": 0}, "k": "", "h": "", "sv": ""}     # StateStore.tla: Default
WHAT = {
    "shares": "InMemoryStateStore.get_state(): model_copy() shares DictState._data, so snapshot[k] = v changes the store",
    "numtop": "a numeric-looking first path segment on a DictState store addresses the integer key 0 instead of the key \"0\"",
    "freshrow": "SqliteStateStore.set_state(parent-typed state) as the first operation on a run stores the parent type unmerged",
}


def _enumerate(chk, group):
    """One TLC run: model-check the design model on every family of the group and collect the
    enumerated histories.  -> {family: (kind, ppaths, [hist])}"""
    res = tlc.run(SPECS / "stores/MC_StateStore.tla", SPECS / ("stores/MC_StateStore_%s.cfg" % group),
                  workdir=chk.work, deadlock=False, workers=4, coverage=False)
    chk.record_tlc("StateStore/" + group, res)
    if res.violated:
        chk.violation("model:" + res.violated,
                      "the nested-dict design model violates %s (group %s)" % (res.violated, group),
                      {"group": group, "trace": res.trace})
        return {}
    chk.require_tlc_ok(group, res)
    fams = {}
    for v in res.prints:
        if isinstance(v, tuple) and len(v) == 4 and v[0] == "FAM":
            fams[v[1]] = (v[2], json.loads(v[3]), [])
    for v in res.prints:
        if isinstance(v, tuple) and len(v) == 3 and v[0] == "SEQ":
            fams[v[1]][2].append(json.loads(v[2]))
    for f, (_, _, hs) in fams.items():
        if not hs:
            raise Machinery("TLC printed no sequences for family " + f)
        hs.sort(key=lambda h: json.dumps(h, sort_keys=True))     # TLC's print order depends on workers
    return fams


def observe(chk, batch, name, workers=4):
    """Obs_C19 over one batch -> {(tid, backend): (clause, l, cause, conf, same)}"""
    f = Path(chk.work) / (name + ".json")
    f.write_text(json.dumps(batch))
    res = tlc.run(SPECS / "obs/Obs_C19.tla", SPECS / "obs/Obs_C19.cfg", workdir=chk.work, workers=workers,
                  env={"TRACE_FILE": str(f)}, deadlock=False, coverage=False, timeout=3000,
                  jvm_opts=("-DTLA-Library=" + str(SPECS / "stores"),))
    if res.error or res.violated:
        raise Machinery("observer Obs_C19 failed on %s: %s %s\n%s" % (
            name, res.error, res.violated, "\n".join(res.stdout.splitlines()[-30:])))
    out = {}
    for v in res.prints:
        if isinstance(v, tuple) and len(v) == 8 and v[0] == "VERDICT":
            out[(v[1], v[2])] = tuple(v[3:])
    n = len(batch["traces"])
    missing = [(i, b) for i in range(1, n + 1) for b in ("memory", "sqlite") if (i, b) not in out]
    if missing:
        raise Machinery("Obs_C19 gave no verdict for %s" % missing[:6])
    f.unlink()
    return out, res


def run(chk):
    from harness.drivers import state_store as drv

    import time
    procs = 4
    t_ph = {"enumerate": 0.0, "memory": 0.0, "sqlite": 0.0}
    t0 = time.time()
    total = nontriv = matched = pairs_equal = design_only = 0
    excs, opkinds = {}, {}

    if not chk.quick:
        # the as-coded model: TLC must find the snapshot-isolation counterexample (memory + DictState)
        res = tlc.run(SPECS / "stores/MC_StateStore.tla", SPECS / "stores/MC_StateStore_ascoded_mem.cfg",
                      workdir=chk.work, deadlock=False, workers=2)
        chk.record_tlc("StateStore/ascoded_mem", res, count=False)
        if res.error:
            chk.require_tlc_ok("ascoded_mem", res)
        chk.add(model_ascoded_isolation_counterexample=bool(res.violated == "Act_C19_Isolation"))
        if res.violated != "Act_C19_Isolation":
            chk.note("the as-coded model (Dev_SnapshotSharesData) does not violate Act_C19_Isolation: %s" % res.violated)

    # ---- 1. TLC: design-level properties + enumeration of all histories
    fams = {}
    for group in GROUPS[chk.tier]:
        fams.update(_enumerate(chk, group))

    t_ph["enumerate"] = round(time.time() - t0, 1)
    # ---- 2. the real stores; 3. TLC judges the recorded histories (batches are judged while the
    #      next families are still being executed)
    famtab = {f: {"kind": k, "ppaths": pp} for f, (k, pp, _) in fams.items()}
    B = chk.pick(2500, 6000)
    items = []          # (fam, kind, ops, expected, memory events, sqlite events)
    futures, submitted = [], 0
    ex = ThreadPoolExecutor(max_workers=chk.pick(3, 4))

    def job(i, its):
        traces = [{"fam": fam, "ops": ops, "memory": m, "sqlite": [] if m == s else s, "same": m == s}
                  for fam, kind, ops, h, m, s in its]
        return i, len(its), observe(chk, {"fams": famtab, "traces": traces}, "obs_%d" % i, workers=chk.pick(3, 4))

    for fam in sorted(fams):
        kind, ppaths, hists = fams[fam]
        seqs = [[e["o"] for e in h] + ([] if h[-1]["o"]["op"] == "probe" else [PROBE]) for h in hists]
        t1 = time.time()
        mem, x1 = drv.run_parallel("memory", kind, seqs, ppaths, chk.work / ("mem_" + fam), procs=1)
        t2 = time.time()
        sql, x2 = drv.run_parallel("sqlite", kind, seqs, ppaths, chk.work / ("sql_" + fam), procs=procs, chunk=400)
        t_ph["memory"] = round(t_ph["memory"] + t2 - t1, 1)
        t_ph["sqlite"] = round(t_ph["sqlite"] + time.time() - t2, 1)
        for x in (x1, x2):
            for k, v in x.items():
                excs[k] = excs.get(k, 0) + v
        for h, ops, m, s in zip(hists, seqs, mem, sql):
            items.append((fam, kind, ops, h, m, s))
            # spec -> code: a successful write followed by a read of the affected paths (the final probe)
            if any(e["o"]["op"] in WRITES and e["r"]["t"] != "e" for e in h):
                nontriv += 1
            for o in ops:
                opkinds[o["op"]] = opkinds.get(o["op"], 0) + 1
        chk.add(**{"sequences_" + fam: len(seqs)})
        mid = len(seqs) // 2
        chk.sample({"family": fam, "ops": [_short(o) for o in seqs[mid]],
                    "memory_final_dump": mem[mid][-1]["r"].get("d"), "sqlite_final_dump": sql[mid][-1]["r"].get("d")})
        while len(items) - submitted >= B:
            futures.append(ex.submit(job, submitted, items[submitted:submitted + B]))
            submitted += B
    if submitted < len(items):
        futures.append(ex.submit(job, submitted, items[submitted:]))
    missing_ops = sorted(set(WRITES | {"getstate", "mutate", "probe"}) - set(opkinds))
    if missing_ops:
        raise Machinery("vacuity: operation kinds never enumerated: %s" % missing_ops)
    t3 = time.time()
    results = [f.result() for f in futures]
    ex.shutdown()
    t_ph["observe_tail"] = round(time.time() - t3, 1)
    chk.add(phase_wall_s=t_ph)
    for i, nb, (verdicts, ores) in results:
        chk.record_tlc("Obs_C19/%d" % i, ores, count=False)
        for (tid, be), (clause, l, cause, conf, same) in sorted(verdicts.items()):
            fam, kind, ops, h, m, s = items[i + tid - 1]
            total += 1
            if conf == len(ops):
                matched += 1                    # reproduced call by call by the as-coded model
            elif clause == "ok":
                matched += 1                    # reproduced by the design model (a deviation is gone)
                design_only += 1
                if design_only <= 3:
                    chk.note("the code follows the design model where the as-coded model deviates (%s/%s): %s" % (
                        fam, be, json.dumps([_short(o) for o in ops])))
            elif len(chk.notes) < 12:
                chk.note("conformance drift (%s/%s): as-coded model reproduces %d/%d calls of %s" % (
                    fam, be, conf, len(ops), json.dumps([_short(o) for o in ops])))
            if clause != "ok":
                evs = m if be == "memory" else s
                key = "obs:%s:%s:%s:%s" % (clause, be, kind, cause)
                chk.violation(key, "%s store (%s state): clause '%s' fails at call %d (%s); %s" % (
                    be, kind, clause, l, _short(ops[l - 1]), WHAT.get(cause, "no known deviation explains it")),
                    {"family": fam, "backend": be, "kind": kind, "ops": [_short(o) for o in ops[:l]],
                     "ops_raw": ops[:l], "returned": [e["r"] for e in evs[:l]],
                     "expected_by_model": [e["r"] for e in h[:l]], "probe_paths": famtab[fam]["ppaths"]})
        for tid in range(1, nb + 1):
            vm, vs = verdicts[(tid, "memory")], verdicts[(tid, "sqlite")]
            if vm[4]:
                pairs_equal += 1
            elif vm[0] == "ok" and vs[0] == "ok":
                raise Machinery("back ends differ on a history that both match the model (impossible): %d" % (i + tid))

    chk.add(evaluations=total, distinct_nontrivial=nontriv, traces_validated_against_impl=matched,
            matched_by_design_model_only=design_only, backend_pairs_equal=pairs_equal, backend_pairs=len(items), exceptions_seen=dict(sorted(excs.items())),
            operations_applied=dict(sorted(opkinds.items())))
    chk.exhaustive = True
    chk.assumptions += [
        "scalars are small integers, containers are dicts/lists of them (string scalars are not used: the path "
        "functions index into strings, which the statement does not speak about)",
        "a raised exception is compared as 'raised' only (its class is listed in exceptions_seen, not judged)",
        "snapshot handles are only mutated / written back while no store write happened since get_state "
        "(model_copy is documented as shallow: nested aliasing is outside the statement)",
        "SQLite: real migrations, one connection per call as in the default server mode, a second idle "
        "connection kept open by the harness, PRAGMA synchronous=OFF on the store's connections (no fsync); "
        "llama_agents.server package imported under the stub importer",
    ]


def _short(o):
    op = o["op"]
    if op == "set":
        return "set(%s, %s)" % (".".join(o["path"]), _val(o["val"]))
    if op == "setstate":
        return "set_state(%s %s)" % (o["sv"], _val(o["val"]))
    if op == "edit":
        return "edit_state{s[%s]=%s}" % (o["k"], _val(o["val"]))
    if op == "mutate":
        return "%s[%s]=%s" % (o["h"], o["k"], _val(o["val"]))
    if op in ("getstate", "writeback"):
        return "%s(%s)" % (op, o["h"])
    return op


def _val(t):
    k = t.get("t")
    if k == "s":
        return str(t["v"])
    if k == "m":
        m = t["m"]
        return "{" + ", ".join("%s: %s" % (kk, _val(v)) for kk, v in (m.items() if isinstance(m, dict) else [])) + "}"
    if k == "l":
        return "[" + ", ".join(_val(v) for v in t["l"]) + "]"
    return k
