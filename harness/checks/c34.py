"""C34 -- release tooling: PEP 440 <-> semver round trips and change classification.

1. TLC enumerates the grid of input vectors <<old, new>> of Versions.tla (one state per vector) and checks the
   declarative definitions on every vector (spellings injective, order a strict total order, classification
   'none' iff not greater and otherwise the first = most significant grown component; model-level round trips on a
   small universe).
2. Every enumerated vector is concretised (monotone number maps incl. multi-digit numbers, several PEP 440
   spellings of the input) and passed to the real pep440_to_semver / semver_to_pep440 / detect_change_type.
3. TLC (Obs_C34.tla, which extends Versions.tla) judges the returned values against the statement's clauses and
   reports conformance to the implementation-shaped definitions as evidence.
"""
from __future__ import annotations

import os
import random

from harness import tlc, tracecheck
from harness.core import SPECS, Machinery

LEVEL = "model_checking"
RULE = ("input vectors = all pairs of versions (maj, min, pat in 0..k, pre in {none,a,b,rc}, n in 0..m) enumerated by "
        "TLC as the states of Versions.tla; each concretised by a monotone number map (identity / 9-10-11 / 1-2-20-100) "
        "and a seeded PEP 440 spelling; non-trivial = distinct (pair, map) combination")

BATCH = 60000
_OBS_FIELDS = ("old", "new", "pep_norm", "sem_in", "sem_out", "pep_back", "pep_out", "sem_back", "cls", "rt_other")


def run(chk):
    from harness.drivers import versions as drv

    rng = random.Random(chk.seed)
    # ---- 1. TLC: definitions + enumeration
    res = tlc.run(SPECS / "tables/MC_Versions.tla", SPECS / "tables/MC_Versions_rt.cfg", workdir=chk.work, deadlock=False)
    chk.record_tlc("Versions/rt", res)
    if res.violated:
        chk.violation("model:" + res.violated, "Versions.tla violates %s" % res.violated, {"trace": res.trace})
    else:
        chk.require_tlc_ok("rt", res)
    grid = chk.pick("quick", "thorough")
    dump = chk.work / "g"
    res = tlc.run(SPECS / "tables/MC_Versions.tla", SPECS / ("tables/MC_Versions_%s.cfg" % grid), workdir=chk.work,
                  deadlock=False, dump=dump, coverage=False)
    chk.record_tlc("Versions/" + grid, res)
    if res.violated:
        chk.violation("model:" + res.violated, "Versions.tla violates %s" % res.violated, {"trace": res.trace})
        return
    chk.require_tlc_ok(grid, res)
    cases = drv.cases_from_dot(str(dump) + ".dot")
    if len(cases) != res.distinct:
        raise Machinery("state dump has %d vectors, TLC reported %d distinct states" % (len(cases), res.distinct))

    # ---- 2. real functions
    recs = []
    for i, (old, new) in enumerate(cases):
        maps = [i % drv.N_MAPS] if (chk.quick or i % 11) else range(drv.N_MAPS)
        for m in maps:
            k = rng.randrange(drv.N_SPELLINGS) if m else i % drv.N_SPELLINGS
            r = drv.evaluate(old, new, m, k, rng)
            recs.append(r)
    bad_spell = [r for r in recs[:: max(1, len(recs) // 5000)]
                 if not (drv.equivalent_spelling(r["pep_in"], r["pep_norm"]))]
    if bad_spell:
        raise Machinery("harness spelling is not PEP 440-equivalent: %r vs %r" % (bad_spell[0]["pep_in"], bad_spell[0]["pep_norm"]))

    # ---- 3. TLC judges (Obs_C34 extends tables/Versions.tla: tell SANY where that module lives)
    os.environ["JAVA_TOOL_OPTIONS"] = "-DTLA-Library=%s" % (SPECS / "tables")
    conf = 0
    drift = {}
    reported = []
    for b in range(0, len(recs), BATCH):
        part = recs[b:b + BATCH]
        verdicts, _ = tracecheck.observe(chk, "obs/Obs_C34.tla", "obs/Obs_C34.cfg",
                                         {"traces": [{k: r[k] for k in _OBS_FIELDS} for r in part]}, name="obs_%d" % (b // BATCH), workers=4)
        for j, r in enumerate(part, 1):
            clause, cf = verdicts[j][0], verdicts[j][2] if len(verdicts[j]) > 2 else "conf"
            if cf == "harness:rendering":
                raise Machinery("harness rendering differs from Versions.tla: %r" % r)
            if cf == "conf":
                conf += 1
            else:
                drift[cf] = drift.get(cf, 0) + 1
            if clause != "ok":
                shape = "pre" if r["new"]["pre"] != "none" else "release"
                key = "obs:%s:%s" % (clause, shape)
                if sum(1 for k in reported if k == key) >= 3:      # a few witnesses per failing clause
                    continue
                reported.append(key)
                chk.violation(key, "new=%r old=%r: %s fails (pep440_to_semver -> %r -> %r; semver_to_pep440(%r) -> %r -> %r; "
                              "detect_change_type -> %r)" % (r["pep_in"], r["old_in"], clause, r["sem_out"], r["pep_back"],
                                                               r["sem_in"], r["pep_out"], r["sem_back"], r["cls"]), r)
    for k, v in sorted(drift.items()):
        chk.note("conformance drift %s on %d vectors (code differs from the implementation-shaped definitions without "
                 "breaking the statement)" % (k, v))
    chk.add(evaluations=len(recs), distinct_nontrivial=len(recs), traces_validated_against_impl=conf,
            grid_vectors=len(cases))
    for r in (recs[len(recs) // 3], recs[len(recs) // 2], recs[-1]):
        chk.sample({k: r[k] for k in ("pep_in", "old_in", "sem_out", "pep_back", "sem_in", "pep_out", "sem_back", "cls")})
    chk.exhaustive = True
    chk.assumptions += [
        "release tuples have three components (semver's shape) in the round trips; the classification is also tried with "
        "the 1- and 2-component PEP 440 spellings of the same versions (trailing zeros dropped); 1-, 2- and 4-component "
        "releases are also round-tripped (same version by `packaging`); post/dev/local segments and epochs other than 0 are "
        "outside the grid",
        "semver inputs are canonical (labels a/b/rc, no leading zeros); PEP 440 inputs use several equivalent spellings "
        "whose equivalence to the normalized form is taken from `packaging`",
        "click/tomlkit are stubbed to import dev_cli.changesets; the three functions under test do not use them",
        "pairs where only the pre-release part grows: only \"not 'none'\" is demanded (the statement names no component there); "
        "the code's answer 'minor' is recorded as implementation behaviour",
    ]
