"""C27 (reduced claim) -- DBOS recovery replays to the recorded task completion order.

Only the repository's own mechanism runs here (InternalDBOSAdapter.wait_for_next_task, TaskJournal,
SqliteJournalCrud); real DBOS/Postgres are not installed, so the end-to-end statement (same ticks, same published
events, same result) rests on DBOS's axioms (recorded step outputs / messages / timestamps are returned on replay, the
workflow function is re-run from the start) and is NOT established by this check.

1. TLC checks DurableReplay.tla exhaustively: journal of task keys, record vs replay mode of wait_for_next_task,
   crash at any point (several times), any completion order after recovery, timeouts, key re-use:
   replay order, journal never rewritten, no fallback, termination under fairness.
2. spec -> code: environment-action sequences of the model's state graph are replayed on the real adapter with
   fabricated asyncio tasks under the virtual loop (record -> crash -> new adapter on the same SQLite journal ->
   adversarial completion order).
3. code -> spec: every recorded execution is validated by TLC against TraceDurableReplay.tla and judged by Obs_C27.
"""
from __future__ import annotations

import random
import re

from harness import tlc, tracecheck
from harness.core import SPECS, Machinery

LEVEL = "model_checking"
RULE = ("crash points x schedules = paths of TLC's state graph of DurableReplay.tla projected on environment actions "
        "(complete(key)/tick/crash/restart) for every plan of the instance, followed by an adversarial (reverse-order) "
        "completion epilogue; non-trivial = a recovery replayed at least one journal entry")

_LAB = re.compile(r'^(\w+)(?:\("?(\w+)"?\))?$')
_CMD = {"Complete": "complete", "Tick": "tick", "Crash": "crash", "Restart": "restart"}


def _schedules(g, max_len=80):
    out = []
    for path in tlc.covering_paths(g, max_len=max_len):
        st = g.state(path[0][0])
        plan = [sorted(s) for s in st["plan"]]
        sched = []
        for (_, _, label) in path:
            m = _LAB.match(label)
            if not m or m.group(1) not in _CMD:
                continue
            cmd = [_CMD[m.group(1)]]
            if m.group(2) is not None:
                cmd.append(m.group(2))
            sched.append(cmd)
        if sched:
            out.append({"plan": plan, "schedule": sched})
    return out


def run(chk):
    from harness.drivers import durable_replay as drv

    inst = chk.pick([("quick", True, ())], [("quick", True, ()), ("thorough", False, ()), ("thorough_q", True, ("Tick",))])
    graphs = {}
    for c, with_graph, ignore in inst:
        variants = ("", "_q") if c == "quick" else ("",)
        for variant in variants:
            dump = chk.work / ("g_" + c) if (variant or c.endswith("_q")) else None
            res = tlc.run(SPECS / "dbos/MC_DurableReplay.tla", SPECS / ("dbos/MC_DurableReplay_%s%s.cfg" % (c, variant)),
                          workdir=chk.work, deadlock=False, dump=dump, workers=1 if dump and c == "quick" else 16,
                          extra=("-fp", "1") if dump else ())
            chk.record_tlc("DurableReplay/" + c + variant, res)
            if res.violated:
                chk.violation("model:" + res.violated, "the DurableReplay model violates %s" % res.violated,
                              {"cfg": c + variant, "trace": res.trace})
                continue
            chk.require_tlc_ok(c + variant, res)
            z = res.zero_actions(ignore=ignore)
            if z:
                raise Machinery("vacuity: actions never taken in %s%s: %s" % (c, variant, z))
            if dump:
                graphs[c] = tlc.load_dot(str(dump) + ".dot")

    rng = random.Random(chk.seed)
    total = nontriv = matched = 0
    summaries, cases = [], []
    for c, g in graphs.items():
        scheds = _schedules(g)
        n_all = len(scheds)
        cap = chk.pick(400, 2500)
        if len(scheds) > cap:
            scheds.sort(key=lambda s: -sum(1 for x in s["schedule"] if x[0] == "crash"))
            keep, rest = scheds[: cap // 2], scheds[cap // 2:]
            rng.shuffle(rest)
            scheds = keep + rest[: cap - len(keep)]
        traces = []
        keys = set()
        for k, sc in enumerate(scheds):
            r = drv.run_schedule(sc["plan"], sc["schedule"], str(chk.work / "journal.sqlite"))
            if r["errors"]:
                raise Machinery("harness control loop failed: %s (plan %s schedule %s)" % (r["errors"], sc["plan"], sc["schedule"]))
            if r["drift"] and len(chk.notes) < 10:
                chk.note("schedule divergence (%s): command %s of a model schedule not enabled on the real system (enabled %s); "
                         "the model allows several branches where the code pops an arbitrary element of asyncio.wait's done set; "
                         "the run was completed and judged anyway" % (c, r["drift"][0]["cmd"], r["drift"][0]["enabled"]))
            for s in sc["plan"]:
                keys.update(x for x in s if x != "same")
            traces.append({"plan": sc["plan"], "init": r["init"], "steps": r["steps"]})
            summaries.append(r["summary"])
            cases.append({"instance": c, "plan": sc["plan"], "schedule": sc["schedule"] + [s["cmd"] for s in r["steps"][len(sc["schedule"]):]]})
            if any(min(len(i["start"]), len(i["returned"])) >= 1 for i in r["summary"]["incarnations"][1:]):
                nontriv += 1
        reached, res = tracecheck.conform(chk, "dbos/TraceDurableReplay.tla", "dbos/TraceDurableReplay.cfg",
                                          {"keys": sorted(keys), "traces": traces}, name="trace_" + c, workers=8)
        if res.violated:
            chk.note("conformance: model invariant %s fails on an inferred step of a real trace (%s)" % (res.violated, c))
        for i, tr in enumerate(traces, 1):
            total += 1
            if reached.get(i, -1) == len(tr["steps"]):
                matched += 1
            elif not res.violated and len(chk.notes) < 10:
                k = reached.get(i, -1) + 1
                what = tr["steps"][k - 1] if 1 <= k <= len(tr["steps"]) else tr["init"]
                chk.note("conformance drift (%s): trace %d matched %d/%d steps; first unmatched: %s" % (
                    c, i, max(k - 1, 0), len(tr["steps"]), what))
        chk.add(model_schedules=n_all, model_schedules_replayed=len(scheds))

    verdicts, _ = tracecheck.observe(chk, "obs/Obs_C27.tla", "obs/Obs_C27.cfg", {"traces": summaries}, name="obs")
    per_key = {}
    for i, s in enumerate(summaries, 1):
        clause, l = verdicts[i][0], verdicts[i][1]
        if clause != "ok":
            per_key[clause] = per_key.get(clause, 0) + 1
            if per_key[clause] <= 3:
                inc = s["incarnations"][l - 1] if 1 <= l <= len(s["incarnations"]) else {}
                chk.violation("obs:" + clause, "incarnation %s: journal at start %s, wait_for_next_task returned %s, journal "
                              "at the end %s" % (l, inc.get("start"), inc.get("returned"), s["journal"]),
                              {"case": cases[i - 1], "summary": s})
    chk.add(evaluations=total, distinct_nontrivial=nontriv, traces_validated_against_impl=matched)
    if summaries:
        j = len(summaries) // 2
        chk.sample({"case": cases[j], "incarnations": summaries[j]["incarnations"], "journal": summaries[j]["journal"]})
        chk.sample({"case": cases[-1], "incarnations": summaries[-1]["incarnations"], "journal": summaries[-1]["journal"]})
    chk.exhaustive = True
    chk.assumptions += [
        "REDUCED CLAIM: only InternalDBOSAdapter.wait_for_next_task, TaskJournal and SqliteJournalCrud are executed; "
        "'same ticks, published events and result' additionally needs DBOS's guarantees (recorded step outputs, messages "
        "and timestamps are returned on replay; the workflow function is re-run from the start), which are axioms here "
        "because dbos and Postgres are not installed",
        "`dbos` is a names-only stub; dbos._context.get_local_dbos_context() is a fake returning function_id=7; "
        "operation_outputs is a stand-in table with the three columns the purge statement touches",
        "the harness plays the control loop (one wait_for_next_task call per iteration, plan-driven pending tasks) and "
        "process death (cancelling every task and dropping the adapter); PostgresJournalCrud is not executed",
    ]
