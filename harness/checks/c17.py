"""C17 -- WorkflowClient.get_workflow_events: every later event exactly once, in order, across connection drops.

1. TLC checks SseClient.tla exhaustively (all interleavings of server appends, heartbeats, byte delivery up to the
   six abstract cut positions of a frame, connection drops, failed connection attempts; all cursors and preloads):
   prefix/once/order, last_sequence, completeness at normal end, failure only beyond the reconnect limit, and
   termination under fairness.
2. spec -> code: the environment-action sequences of the model's state graph (quiescent-environment variant, i.e.
   the granularity at which the harness can act) are replayed on the real WorkflowClient connected through
   httpx.MockTransport to the real server-side formatter (_WorkflowAPI._stream_events on a MemoryWorkflowStore),
   under the virtual loop, with several chunkings of the delivered bytes.
3. code -> spec: each recorded execution is validated by TLC against TraceSseClient.tla and judged by Obs_C17.tla.
4. byte sweep: all events preloaded, the connection cut after every single byte offset of the body (plus seeded
   second cuts and failed connection attempts); judged by Obs_C17.tla.
"""
from __future__ import annotations

import random
import re

from harness import tlc, tracecheck
from harness.core import SPECS, Machinery

LEVEL = "model_checking"
RULE = ("fault sequences = paths of TLC's state graph of SseClient.tla projected on environment actions "
        "(arm/start/append/heartbeat/deliver(pos)/drop/close), all start cursors, preloads and hidden-event "
        "sets of the instance, replayed on the real client with 3 chunkings; plus a sweep of every byte "
        "offset of the response body; non-trivial = at least one connection failure (drop or refused connect)")

_LAB = re.compile(r"^(\w+)(?:\((\d+)\))?$")
_CMD = {"Arm": "arm", "Start": "start", "AppendEv": "append", "Heartbeat": "hb", "Deliver": "deliver",
        "Drop": "drop", "Close": "close"}


def _schedules(g, max_len=60):
    out = []
    for path in tlc.covering_paths(g, max_len=max_len):
        st = g.state(path[0][0])
        sched = []
        for (_, _, label) in path:
            m = _LAB.match(label)
            if not m or m.group(1) not in _CMD:
                continue
            cmd = [_CMD[m.group(1)]]
            if m.group(2) is not None:
                cmd.append(int(m.group(2)))
            sched.append(cmd)
        if sched:
            out.append({"preload": st["log"], "hidden": sorted(st["hidden"]), "cursor": st["cursor"],
                        "schedule": sched})
    return out


def _judge(chk, summaries, name, what):
    """Obs_C17 on a list of summaries; returns verdict list."""
    verdicts, _ = tracecheck.observe(chk, "obs/Obs_C17.tla", "obs/Obs_C17.cfg", {"traces": [{k: v for k, v in s.items() if k != "case"} for s in summaries]}, name=name)
    bad = 0
    per_key = {}
    for i, s in enumerate(summaries, 1):
        clause, l = verdicts[i][0], verdicts[i][1]
        if clause != "ok":
            bad += 1
            per_key[clause] = per_key.get(clause, 0) + 1
            if per_key[clause] > 3:          # a few witnesses per failing clause are enough
                continue
            chk.violation("obs:" + clause,
                          "%s: clause '%s' fails at yield %s (cursor %s, yields %s, outcome %s %s)" % (
                              what, clause, l, s["cursor"], [y["ev"] for y in s["yields"]], s["outcome"], s["error"]),
                          {"summary": s, "case": s.get("case")})
    return bad


def run(chk):
    from harness.drivers import sse_client as drv

    # ---- 1. design level
    inst = chk.pick([("quick", True)], [("quick", True), ("thorough", True), ("thorough5", False)])
    graphs = {}
    params = {}
    for c, with_graph in inst:
        for variant in (("", "_q") if with_graph else ("",)):
            dump = chk.work / ("g_" + c) if variant else None
            # the graph that is projected onto schedules is produced deterministically (1 worker, fixed fp index)
            res = tlc.run(SPECS / "client/MC_SseClient.tla", SPECS / ("client/MC_SseClient_%s%s.cfg" % (c, variant)),
                          workdir=chk.work, deadlock=False, dump=dump, workers=1 if variant else 16,
                          extra=("-fp", "1") if variant else ())
            chk.record_tlc("SseClient/" + c + variant, res)
            if res.violated:
                chk.violation("model:" + res.violated, "the SseClient model violates %s" % res.violated,
                              {"cfg": c + variant, "trace": res.trace})
                continue
            chk.require_tlc_ok(c + variant, res)
            z = res.zero_actions()
            if z:
                raise Machinery("vacuity: actions never taken in %s%s: %s" % (c, variant, z))
            if dump:
                graphs[c] = tlc.load_dot(str(dump) + ".dot")
                cfgtxt = (SPECS / ("client/MC_SseClient_%s_q.cfg" % c)).read_text()
                params[c] = {"n": int(re.search(r"\bN = (\d+)", cfgtxt).group(1)),
                             "max_attempts": int(re.search(r"MaxAttempts = (\d+)", cfgtxt).group(1))}

    # ---- 2./3. replay on the real client, TLC validates and judges
    rng = random.Random(chk.seed)
    total = nontriv = matched = 0
    sigs = set()
    all_summ = []
    modes = (("whole", 0), ("byte", 9), ("split", 98))
    for c, g in graphs.items():
        n, ma = params[c]["n"], params[c]["max_attempts"]
        scheds = _schedules(g)
        n_all = len(scheds)
        cap = chk.pick(1200, 2500 if c == "quick" else 7000)
        if len(scheds) > cap:
            # a seeded sample that never loses the fault-heavy schedules
            scheds.sort(key=lambda s: -sum(1 for x in s["schedule"] if x[0] in ("drop", "arm")))
            keep, rest = scheds[: cap // 2], scheds[cap // 2:]
            rng.shuffle(rest)
            scheds = keep + rest[: cap - len(keep)]
        traces = []
        for k, sc in enumerate(scheds):
            # quick: one chunking per schedule (round robin); thorough: all three
            for (chunking, base) in ([modes[k % 3]] if chk.quick else modes):
                cfg = {"n": n, "hidden": sc["hidden"], "base": base, "cursor": sc["cursor"], "preload": sc["preload"],
                       "max_attempts": ma, "chunking": chunking, "rng": random.Random(chk.seed * 7919 + k)}
                r = drv.run_schedule(cfg, sc["schedule"])
                if r["drift"] and len(chk.notes) < 10:
                    chk.note("conformance drift (%s): command %s of a model schedule not enabled on the real system "
                             "(enabled: %s)" % (c, r["drift"][0]["cmd"], r["drift"][0]["enabled"]))
                summ = r["summary"]
                summ["case"] = {"instance": c, "chunking": chunking, "base": base, "hidden": sc["hidden"],
                                "preload": sc["preload"], "schedule": sc["schedule"]}
                all_summ.append(summ)
                traces.append({"preload": sc["preload"], "hidden": sc["hidden"], "cursor": sc["cursor"],
                               "steps": r["steps"]})
                sig = (c, tuple(sc["hidden"]), sc["preload"], sc["cursor"], repr(sc["schedule"]))
                if summ["faults"] >= 1 and sig not in sigs:
                    sigs.add(sig)
                    nontriv += 1
        reached, res = tracecheck.conform(chk, "client/TraceSseClient.tla", "client/TraceSseClient.cfg",
                                          {"n": n, "max_attempts": ma, "traces": traces}, name="trace_" + c,
                                          workers=8)
        if res.violated:
            chk.note("conformance: model invariant %s fails on an inferred step of a real trace (%s)" % (
                res.violated, c))
        for i, tr in enumerate(traces, 1):
            total += 1
            if reached.get(i, 0) == len(tr["steps"]):
                matched += 1
            elif not res.violated and len(chk.notes) < 10:
                k = reached.get(i, 0)
                chk.note("conformance drift (%s): trace %d matched %d/%d steps; first unmatched %s -> %s" % (
                    c, i, k, len(tr["steps"]), tr["steps"][k]["cmd"], tr["steps"][k]["post"]))
        mid = all_summ[-(len(traces) // 2) - 1]
        chk.sample({"case": mid["case"], "yields": [y["ev"] for y in mid["yields"]], "reqs": mid["reqs"],
                    "outcome": mid["outcome"]})
        chk.add(model_schedules=n_all, model_schedules_replayed=len(scheds))
    n_replay = len(all_summ)

    # ---- 4. byte sweep (free-running transport): the connection is cut after every byte offset of the body
    n = chk.pick(3, 4)
    for hidden in ([], [2]):
        for base in (0, 9):
            for cursor in range(0, n + 1):
                cfg = {"n": n, "hidden": hidden, "base": base, "cursor": cursor}
                size = drv.body_length(cfg, cursor)
                for ma, fail_first in ((1, 0), (2, 2), (1, 2)):
                    step = 1 if (ma, fail_first) == (1, 0) else chk.pick(13, 3)
                    if chk.quick and base == 9 and hidden:
                        step *= 3
                    for k in range(0, size + 1, step):
                        second = rng.randint(0, size) if rng.random() < 0.5 else None
                        third = rng.randint(0, size) if (second is not None and rng.random() < 0.3) else None
                        for chunking in (("whole",) if chk.quick and k % 4 else ("whole", "byte")):
                            c2 = dict(cfg, max_attempts=ma, chunking=chunking)
                            s = drv.run_plan(c2, [k, second, third], fail_first=fail_first)
                            s["case"] = {"sweep": True, "hidden": hidden, "base": base,
                                         "cut_after_bytes": [k, second, third], "fail_first": fail_first,
                                         "chunking": chunking, "max_attempts": ma}
                            all_summ.append(s)
    _judge(chk, all_summ, "obs", "client run")
    sweep = all_summ[n_replay:]
    sw_non = len({(tuple(s["case"]["hidden"]), s["case"]["base"], s["cursor"], tuple(map(str, s["case"]["cut_after_bytes"])),
                   s["case"]["fail_first"], s["case"]["max_attempts"]) for s in sweep if s["faults"] >= 1})
    chk.add(evaluations=len(all_summ), distinct_nontrivial=nontriv + sw_non,
            traces_validated_against_impl=matched, byte_sweep_runs=len(sweep), replay_runs=total)
    if sweep:
        s = sweep[len(sweep) // 3]
        chk.sample({"case": s["case"], "yields": [y["ev"] for y in s["yields"]], "reqs": s["reqs"],
                    "outcome": s["outcome"]})
    chk.exhaustive = True
    chk.assumptions += [
        "starlette is not installed: Request/StreamingResponse/HTTPException are small fakes; the real "
        "_WorkflowAPI._stream_events/format_stream and MemoryWorkflowStore.subscribe_events produce the bytes",
        "httpx.MockTransport replaces the network: a drop is httpx.ReadError raised by the response stream after the "
        "chosen byte offset, a refused connection is httpx.ConnectError; TCP-level behaviours are not modelled",
        "the run's handler record keeps status 'running'; completion is recognised from the terminal StopEvent",
        "cursors beyond the current end of the log are not generated",
    ]
