"""C35 -- step lifecycle telemetry on the stream is balanced and ordered."""
from harness.checks import _engine as eg

LEVEL = "model_checking"
RULE = ("programs = fanout/collect/wait/routing scenario families; schedules = bounded DFS + seeded walks, each ended by "
        "letting every body finish (drain); non-trivial = an event had to queue (PREPARING) or an InputRequiredEvent "
        "was returned")


def nontrivial(tr):
    return any((r["e"] == "pub" and r["p"]["k"] == "state" and r["p"]["state"] == "PREPARING")
               or (r["e"] == "step_end" and r["how"] == "ret:Ask") for r in tr)


def extra(prog, tr):
    return {"uses_collect": {s: any(o["op"] == "collect" for o in sc["body"]) for s, sc in prog["steps"].items()}}


def run(chk):
    from harness.programs import scenarios as sc
    items = eg.collect(chk, ["fanout", "collect", "wait", "routing"])
    # an InputRequiredEvent that a step of the workflow itself accepts
    items += eg.collect(chk, ["ask"], paths_q=10, walks_q=4)
    # serialise/resume points: what was in flight (queued or running) at the snapshot is started again in the resumed
    # run, and its telemetry must be balanced there as well
    items += eg.collect_resumed(chk, [("fanout(2,3)", sc.fanout(2, 3, None, 0, 0), []),
                                      ("pipeline", sc.pipeline(), []),
                                      ("overlap(1,2,2)", sc.overlap(1, 2, 2), [])], paths_q=4)
    eg.standard_run(chk, "C35", None, {"pub", "step_start", "step_end", "drained"}, nontrivial=nontrivial, extra=extra,
                    items=items)
