"""C35 -- step lifecycle telemetry on the stream is balanced and ordered."""
from harness.checks import _engine as eg

LEVEL = "model_checking"
RULE = ("programs = fanout/collect/wait/routing scenario families; schedules = bounded DFS + seeded walks, each ended by "
        "letting every body finish (drain); non-trivial = an event had to queue (PREPARING) or an InputRequiredEvent "
        "was returned")


def nontrivial(tr):
    return any((r["e"] == "pub" and r["p"]["k"] == "state" and r["p"]["state"] == "PREPARING")
               or (r["e"] == "step_end" and r["how"] == "ret:Ask") for r in tr)


def extra(prog, tr):
    return {"uses_collect": {s: any(o["op"] == "collect" for o in sc["body"]) for s, sc in prog["steps"].items()}}


def run(chk):
    eg.standard_run(chk, "C35", ["fanout", "collect", "wait", "routing"],
                    {"pub", "step_start", "step_end", "drained"}, nontrivial=nontrivial, extra=extra)
