"""C29 -- merge_generators / debounced_sorted_prefix preserve items and order.

1. TLC checks Merge.tla (every program of 2-3 sources x <=2-3 items, one erroring source; `done`
   batches of any subset in any order; consumer pulling at any time) and Debounce.tla (every scenario
   of arrival times vs the debounce/max window, keys, end of the inner stream; every interleaving of an
   arriving item with the window timer, the completion marker and the `done` order) exhaustively.
   Debounce is checked in two variants: Dev_PassthroughOnSignal=FALSE (intended design, strict
   invariant) and TRUE (the code as it is, known failure shape carved out).
2. The real functions run under the virtual loop: merge_generators is explored exhaustively (batches
   of produce/pull commands x `done` orders, pruned on the projected state) plus schedules projected
   from TLC's state graph; debounced_sorted_prefix is run on every scenario TLC enumerated, with each
   item made ready after / together with / just ahead of the timers due at its arrival time and both
   `done` orders.
3. Every recorded execution is validated by TLC against TraceMerge / TraceDebounce (conformance) and
   judged by Obs_C29 (verdict).
"""
from __future__ import annotations

import itertools
import random
import re
from concurrent.futures import ThreadPoolExecutor

from harness import tlc, tracecheck
from harness.core import SPECS, Machinery

LEVEL = "model_checking"
RULE = ("merge: programs = (items per source, how each source ends) enumerated by TLC; schedules = batches of "
        "produce/pull commands at quiescence points x iteration orders of asyncio.wait's done set, exhaustive DFS on "
        "the real generator pruned on the projected state + schedules projected from TLC's state graph; non-trivial = "
        "some done batch held >=2 finished tasks.  debounce: scenarios (arrival times, keys, end time) enumerated by "
        "TLC x per-item readiness mode (after / with / just before the timers due at its arrival time) x done order; "
        "non-trivial = an item arrived exactly when the window closed")

# small TLC jobs (tiny models, trace batches): JIT level 1 and few GC/compiler threads cut the JVM's CPU use
# to a third on a loaded machine; large thorough models override this with the default JVM settings
LIGHT_JVM = "-XX:TieredStopAtLevel=1 -XX:ParallelGCThreads=2 -XX:CICompilerCount=1 -Xmx3g"

KF_EDGE = "obs:burst_first:item_at_window_edge"
D_Q, M_Q = 2, 4


# ------------------------------------------------------------------------------------------ helpers
def _tlc_jobs(chk, jobs):
    """jobs: name -> (module, cfg, dump?) ; run concurrently, each in its own workdir."""
    def one(item):
        name, (mod, cfg, dump) = item
        wd = chk.work / ("tlc_" + name)
        big = "thorough" in name
        return name, tlc.run(SPECS / mod, SPECS / cfg, workdir=wd, deadlock=False, workers=(8 if big else 2),
                             dump=(wd / "g") if dump else None, extra=("-fp", "1"),
                             env=({"JAVA_TOOL_OPTIONS": "-Xmx8g"} if big else {}))
    with ThreadPoolExecutor(max_workers=len(jobs)) as ex:
        return dict(ex.map(one, jobs.items()))


def _judge(chk, batch, trace_mod, trace_cfg, tag):
    """Observer (verdict) and trace spec (conformance) on the same batch, concurrently."""
    with ThreadPoolExecutor(max_workers=2) as ex:
        fo = ex.submit(tracecheck.observe, chk, "obs/Obs_C29.tla", "obs/Obs_C29.cfg", batch, "obs_" + tag)
        fc = ex.submit(tracecheck.conform, chk, trace_mod, trace_cfg, batch, "trace_" + tag)
        return fo.result(), fc.result()


def _window(t, D, M):
    c = D
    for x in t:
        if x < min(c, M):
            c = x + D
    return min(c, M)


def _merge_graph_schedules(g, limit):
    """Project covering paths of Merge's state graph onto (program, schedule) pairs."""
    lab_p = re.compile(r'^Produce\("(\w+)"\)$')
    lab_w = re.compile(r'^WaitReturn\(<<(.*)>>\)$')
    out = []
    for path in tlc.covering_paths(g, max_len=60):
        if not path:
            continue
        prog = g.state(path[0][0])["prog"]
        sched, cmds = [], []

        def add(c):
            # a command the driver can only issue after the loop ran (second pull, produce after a pull
            # that re-arms the source) starts a new batch
            nonlocal cmds
            if c in cmds or (c[0] == "produce" and ["pull"] in cmds):
                sched.append({"cmds": cmds, "order": None})
                cmds = []
            cmds.append(c)

        for (src, dst, label) in path:
            m = lab_p.match(label)
            if m:
                add(["produce", m.group(1)])
                continue
            if label == "Pull":
                add(["pull"])
                continue
            m = lab_w.match(label)
            if m and cmds:
                sched.append({"cmds": cmds, "order": re.findall(r'"(\w+)"', m.group(1))})
                cmds = []
        if cmds:
            sched.append({"cmds": cmds, "order": None})
        nxt = []
        for ev in reversed(sched):          # a batch without its own WaitReturn takes the next one's order
            if ev["order"] is None:
                ev["order"] = list(nxt)
            else:
                nxt = ev["order"]
        if sched:
            out.append(({"len": dict(prog["len"]), "term": dict(prog["term"])}, sched))
        if len(out) >= limit:
            break
    return out


# ------------------------------------------------------------------------------------------ merge
def _merge_part(chk, graph, srcs, progs, tag):
    from harness.drivers import iter_merge as drv
    traces = []          # (prog, events, done_sizes)
    for prog in progs:
        for tr, sizes in drv.explore(prog, max_batch=2):
            if tr:
                traces.append((prog, tr, sizes))
    n_impl = len(traces)
    n_model = 0
    if graph is not None:
        for prog, sched in _merge_graph_schedules(graph, chk.pick(600, 6000)):
            tr, sizes = drv.run_schedule(prog, sched)
            if tr:
                traces.append((prog, tr, sizes))
                n_model += 1
    batch = {"kind": "merge", "srcs": srcs,
             "traces": [{"len": p["len"], "term": p["term"], "events": tr} for p, tr, _ in traces]}
    (verdicts, _), (reached, res) = _judge(chk, batch, "sync/TraceMerge.tla", "sync/TraceMerge.cfg", "merge_" + tag)
    if res.violated:
        chk.note("conformance: model invariant %s fails on an inferred step of a real merge trace" % res.violated)
    matched = nontriv = 0
    seen = set()
    for i, (prog, tr, sizes) in enumerate(traces, 1):
        clause, l = verdicts[i][0], verdicts[i][1]
        if clause != "ok":
            chk.violation("obs:merge:" + clause,
                          "merge_generators execution violates clause '%s' at event %s" % (clause, l),
                          {"prog": prog, "schedule": [{"cmds": e["cmds"], "order": e["order"]} for e in tr],
                           "trace": tr[: (l or 0) + 1]})
        if reached.get(i, 0) == len(tr):
            matched += 1
        elif not res.violated and len(chk.notes) < 8:
            k = reached.get(i, 0)
            chk.note("conformance drift (merge): trace %d matched %d/%d events; first unmatched cmds %s order %s" % (
                i, k, len(tr), tr[k]["cmds"], tr[k]["order"]))
        sig = repr((prog, [(e["cmds"], e["order"]) for e in tr]))
        if sizes and max(sizes) >= 2 and sig not in seen:
            seen.add(sig)
            nontriv += 1
    mid = traces[len(traces) // 2]
    chk.sample({"merge_prog": mid[0], "schedule": [[e["cmds"], e["order"]] for e in mid[1]],
                "out": mid[1][-1]["post"]["out"], "result": mid[1][-1]["post"]["result"]})
    chk.add(merge_impl_explored=n_impl, merge_model_projected=n_model)
    return len(traces), nontriv, matched


# ------------------------------------------------------------------------------------------ debounce
def _mode_vectors(scen, full):
    n = len(scen["t"])
    movable = [i for i in range(n) if scen["t"][i] > 0]
    if full:
        vecs = []
        for combo in itertools.product(["after", "timer", "before"], repeat=len(movable)):
            v = ["after"] * n
            for i, m in zip(movable, combo):
                v[i] = m
            vecs.append(v)
    else:
        vecs = [["after"] * n]
        for i in movable:
            for m in ("timer", "before"):
                v = ["after"] * n
                v[i] = m
                vecs.append(v)
    out = []
    for v in vecs:
        prios = [["inner", "mark"], ["mark", "inner"]] if "timer" in v else [["inner", "mark"]]
        for p in prios:
            out.append((v, p))
    if scen["endT"] > 0:
        out.append((["after"] * n, ["inner", "mark"], "timer"))
        out.append((["after"] * n, ["mark", "inner"], "timer"))
    return out


def _debounce_part(chk, graph, D, M, tag, full_modes, cap, rng):
    from harness.drivers import iter_debounce as drv
    scens = []
    for sid in graph.init:
        sc = graph.state(sid)["scen"]
        scens.append({"t": list(sc["t"]), "key": list(sc["key"]), "endT": sc["endT"]})
    scens.sort(key=lambda s: (len(s["t"]), s["t"], s["key"], s["endT"]))
    # outcomes of the model: terminal (closed) states
    srcs_with_succ = {a for a, b, _ in graph.edges if a != b}
    model_out = {}
    for sid in graph.raw:
        if sid in srcs_with_succ:
            continue
        st = graph.state(sid)
        if st.get("closed"):
            sc = st["scen"]
            model_out.setdefault((tuple(sc["t"]), tuple(sc["key"]), sc["endT"]), set()).add(tuple(st["out"]))
    cases = []
    for sc in scens:
        for mv in _mode_vectors(sc, full_modes):
            cases.append((sc, mv))
    if cap and len(cases) > cap:
        cases = rng.sample(cases, cap)
        chk.exhaustive = False
    traces = []
    for sc, mv in cases:
        end_mode = mv[2] if len(mv) > 2 else "after"
        traces.append(drv.execute(sc, D, M, mv[0], mv[1], end_mode))

    # does the current code show the known failure shape on its witness schedule?
    wit = drv.execute({"t": [0, 0, D], "key": [3, 1, 2], "endT": D + M + 1}, D, M, ["after", "after", "before"],
                      ["inner", "mark"])
    dev = wit["out"] == [3, 2, 1]          # the edge item was passed through ahead of the sorted burst
    batch = {"kind": "debounce", "D": D, "M": M, "dev": dev, "traces": traces + [wit]}
    (verdicts, _), (reached, res) = _judge(chk, batch, "sync/TraceDebounce.tla", "sync/TraceDebounce.cfg", "deb_" + tag)
    if res.violated:
        chk.note("conformance: model invariant %s fails on an inferred step of a real debounce trace" % res.violated)
    matched = nontriv = 0
    seen = set()
    reproduced = set()
    for i, tr in enumerate(batch["traces"], 1):
        v = verdicts[i]
        clause, cause = v[0], (v[2] if len(v) > 2 else "-")
        if clause != "ok":
            key = "obs:%s:%s" % (clause, cause) if cause != "-" else "obs:debounce:" + clause
            chk.violation(key, "debounced_sorted_prefix yields %s for arrivals t=%s keys=%s (D=%s, M=%s), readiness %s, "
                               "done order %s: clause '%s' (%s)" % (tr["out"], tr["t"], tr["key"], D, M, tr["modes"],
                                                                    tr["prio"], clause, cause),
                          {"scenario": {k: tr[k] for k in ("t", "key", "endT", "D", "M")}, "modes": tr["modes"],
                           "end_mode": tr["end_mode"], "prio": tr["prio"], "out": tr["out"]})
        if reached.get(i, 0) == len(tr["snaps"]):
            matched += 1
            reproduced.add(((tuple(tr["t"]), tuple(tr["key"]), tr["endT"]), tuple(tr["out"])))
        elif not res.violated and len(chk.notes) < 8:
            chk.note("conformance drift (debounce): t=%s keys=%s modes=%s prio=%s out=%s matched %d/%d snapshots" % (
                tr["t"], tr["key"], tr["modes"], tr["prio"], tr["out"], reached.get(i, 0), len(tr["snaps"])))
        w = _window(tr["t"], D, M)
        sig = (tuple(tr["t"]), tuple(tr["key"]), tr["endT"], tuple(tr["modes"]), tuple(tr["prio"]), tr["end_mode"])
        if any(x == w for x in tr["t"]) and sig not in seen:
            seen.add(sig)
            nontriv += 1
    n_model = sum(len(v) for v in model_out.values())
    n_rep = sum(1 for k, outs in model_out.items() for o in outs if (k, o) in reproduced)
    chk.add(debounce_scenarios=len(scens), debounce_model_outcomes=n_model, debounce_model_outcomes_reproduced=n_rep)
    if not cap and full_modes and n_rep < n_model:
        chk.note("debounce: %d of %d model outcomes were not reproduced by any driven schedule" % (n_model - n_rep, n_model))
    mid = traces[len(traces) // 2]
    chk.sample({"debounce": {k: mid[k] for k in ("t", "key", "endT", "modes", "prio", "out")}})
    return len(batch["traces"]), nontriv, matched, dev


# ------------------------------------------------------------------------------------------ run
class _Rec:
    """Stands for the Check inside a worker process: records the calls, the parent replays them."""

    def __init__(self, tier, seed, work):
        self.tier, self.seed, self.work = tier, seed, work
        self.quick = tier == "quick"
        self.calls = []
        self.notes = []
        self.exhaustive = True
        work.mkdir(parents=True, exist_ok=True)

    def pick(self, q, t):
        return q if self.quick else t

    def note(self, msg):
        self.notes.append(msg)
        self.calls.append(("note", (msg,), {}))

    def record_tlc(self, name, res, *, count=True):
        res.stdout = ""
        res.prints = []
        self.calls.append(("record_tlc", (name, res), {"count": count}))

    def require_tlc_ok(self, name, res, *, allow_violation=False):
        if res.error or (res.violated and not allow_violation):
            raise Machinery("TLC run %s failed: %s %s\n%s" % (name, res.error, res.violated,
                                                              "\n".join(res.stdout.splitlines()[-40:])))

    def __getattr__(self, name):
        if name in ("violation", "add", "sample"):
            return lambda *a, **k: self.calls.append((name, a, k))
        raise AttributeError(name)


def _model_jobs(chk, jobs):
    """Run the TLC jobs; returns the dumped graphs of those that passed."""
    results = _tlc_jobs(chk, jobs)
    graphs = {}
    for name, res in results.items():
        if res.violated:
            chk.violation("model:%s:%s" % (name, res.violated),
                          "the %s design model violates %s (counterexample in replay)" % (name, res.violated),
                          {"cfg": jobs[name][1], "trace": res.trace})
            chk.record_tlc(name, res)
            continue
        chk.require_tlc_ok(name, res)
        z = res.zero_actions()
        if z:
            raise Machinery("vacuity: actions never taken in %s: %s" % (name, z))
        chk.record_tlc(name, res)
        if jobs[name][2]:
            g = tlc.load_dot(str(chk.work / ("tlc_" + name) / "g") + ".dot")
            g.edges.sort()          # fixed fingerprint function + sorted edges: the same paths on every run
            g.init.sort()
            graphs[name] = g
    return graphs


def _pipeline(which, tier, seed, work):
    chk = _Rec(tier, seed, work)
    rng = random.Random(seed)
    total = nontriv = matched = 0
    dev = None
    if which == "merge":
        jobs = {"merge_quick": ("sync/MC_Merge.tla", "sync/MC_Merge_quick.cfg", True)}
        if not chk.quick:
            jobs["merge_three"] = ("sync/MC_Merge.tla", "sync/MC_Merge_three.cfg", False)
            jobs["merge_thorough"] = ("sync/MC_Merge.tla", "sync/MC_Merge_thorough.cfg", False)
        graphs = _model_jobs(chk, jobs)
        g = graphs.get("merge_quick")
        if g is not None:
            progs = []
            for sid in g.init:
                p = g.state(sid)["prog"]
                progs.append({"len": dict(p["len"]), "term": dict(p["term"])})
            progs.sort(key=lambda p: repr(sorted(p["len"].items())) + repr(sorted(p["term"].items())))
            t, n, m = _merge_part(chk, g, ["a", "b"], progs, "2")
            total, nontriv, matched = total + t, nontriv + n, matched + m
        if not chk.quick:
            progs3 = []
            for lens in itertools.product(range(0, 3), repeat=3):
                for err in (None, "a", "c"):
                    progs3.append({"len": dict(zip("abc", lens)),
                                   "term": {s: ("err" if s == err else "end") for s in "abc"}})
            progs3 = rng.sample(progs3, 24)
            t, n, m = _merge_part(chk, None, ["a", "b", "c"], progs3, "3")
            total, nontriv, matched = total + t, nontriv + n, matched + m
    else:
        jobs = {"deb_code": ("sync/MC_Debounce.tla", "sync/MC_Debounce_quick.cfg", True),
                "deb_design": ("sync/MC_Debounce.tla", "sync/MC_Debounce_design.cfg", False)}
        if not chk.quick:
            jobs.update({
                "deb_full": ("sync/MC_Debounce.tla", "sync/MC_Debounce_full.cfg", True),
                "deb_thorough_code": ("sync/MC_Debounce.tla", "sync/MC_Debounce_thorough.cfg", True),
                "deb_thorough_design": ("sync/MC_Debounce.tla", "sync/MC_Debounce_thorough_design.cfg", False),
            })
        graphs = _model_jobs(chk, jobs)
        plan = [("deb_code", D_Q, M_Q, "q", False, None)]
        if not chk.quick:
            plan += [("deb_full", D_Q, M_Q, "f", True, None), ("deb_thorough_code", 2, 5, "t", False, 20000)]
        for gname, D, M, tag, full, cap in plan:
            g = graphs.get(gname)
            if g is None:
                continue
            t, n, m, d = _debounce_part(chk, g, D, M, tag, full_modes=full, cap=cap, rng=rng)
            total, nontriv, matched = total + t, nontriv + n, matched + m
            dev = d if dev is None else dev
    return chk.calls, (total, nontriv, matched), dev, chk.exhaustive


def run(chk):
    import os
    os.environ["JAVA_TOOL_OPTIONS"] = LIGHT_JVM
    import multiprocessing
    from concurrent.futures import ProcessPoolExecutor
    chk.exhaustive = True
    with ProcessPoolExecutor(max_workers=2, mp_context=multiprocessing.get_context("fork")) as ex:
        futs = [ex.submit(_pipeline, w, chk.tier, chk.seed, chk.work / w) for w in ("merge", "deb")]
        outs = [f.result() for f in futs]
    total = nontriv = matched = 0
    for calls, (t, n, m), dev, exh in outs:
        for name, a, k in calls:
            getattr(chk, name)(*a, **k)
        total, nontriv, matched = total + t, nontriv + n, matched + m
        chk.exhaustive = chk.exhaustive and exh
        if dev is not None:
            chk.add(code_follows_Dev_PassthroughOnSignal=bool(dev))
    chk.add(evaluations=total, distinct_nontrivial=nontriv, traces_validated_against_impl=matched)
    chk.assumptions += [
        "asyncio.wait as seen by iter_utils is wrapped in the harness so that the schedule chooses the iteration "
        "order of the done set (a Python set of tasks: every order is a real behaviour)",
        "Debouncer's default clock (time.monotonic bound at import) is pointed at the virtual clock; integer times",
        "eager outer consumer for debounced_sorted_prefix; merge_generators(stop_on_first_completion=True), early "
        "aclose() and cancellation are not covered",
        "virtual loop runs ready callbacks in asyncio's own FIFO order",
    ]
