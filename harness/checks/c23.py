"""C23 -- Workflow.validate accepts exactly the well-formed graphs and returns the right HITL flag.

Function-table flavour (DESIGN 5/C23):
1. TLC enumerates the abstract graph space of specs/config/MC_Validate.tla (every initial state is one
   graph: <=2 (thorough: <=3) steps over small event-class universes incl. base classes and subclasses of
   Start/Stop/InputRequired/HumanResponse, StepFailedEvent, `-> None`, unions, @catch_error handlers with
   scopes, workflow- and step-level skip sets) and checks on every graph that the declarative oracle
   WellFormed(g) equals the implementation-shaped procedure CodeOutcome(g) (Validate.tla), and the HITL
   theorem with the known deviation carved out (Dev_HitlExactClass).
2. The harness compiles every enumerated graph to a real Workflow subclass (generated @step/@catch_error
   functions with real event classes in __annotations__), constructs it and calls the real validate().
3. TLC (Obs_C23.tla) judges what the real code did against WellFormed/Hitl: both directions
   (accepted => well-formed, well-formed => accepted) and the returned flag.
"""
from __future__ import annotations

import os
import threading
from collections import Counter

from harness import tlc
from harness.core import SPECS, Machinery
from harness.drivers import _obslib

LEVEL = "model_checking"
RULE = ("graphs = all step sets enumerated by TLC from MC_Validate.tla within the instance bounds (accept/return "
        "unions over the instance's event classes, -> None, handler scopes, skip sets), each compiled to a real "
        "Workflow subclass; every graph has >=1 step except the single empty one; distinct_nontrivial counts "
        "distinct (accept, return, role, scope, skip) signatures with >=1 step")

QUICK = ["quick_core", "quick_kinds", "quick_skips", "quick_handlers", "quick_island"]
THOROUGH = ["thorough_core_acc2", "thorough_core_ret2", "thorough_kinds", "thorough_unions", "thorough_skips", "thorough_handlers",
            "thorough_handlers3", "quick_island"]
CHUNK = 60000           # traces per observer run
MAX_PER_INSTANCE = 400000   # beyond this an instance is sampled by seed (thorough only)


def _tables(res):
    t = {}
    vecs = []
    for v in res.prints:
        if not isinstance(v, tuple) or not v:
            continue
        if v[0] in ("SHAPES", "HSHAPES", "WSKIPS"):
            t[v[0]] = v[1]
        elif v[0] == "G":
            vecs.append((list(v[1]), list(v[2]), v[3]))
    if set(t) != {"SHAPES", "HSHAPES", "WSKIPS"}:
        raise Machinery("MC_Validate did not print its tables")
    inst = {
        "shapes": [{"acc": sorted(s["acc"]), "ret": sorted(s["ret"]), "sskip": sorted(s["sskip"])} for s in t["SHAPES"]],
        "hshapes": [{"ret": sorted(s["ret"]), "for": sorted(s["for"])} for s in t["HSHAPES"]],
        "wskips": [sorted(s) for s in t["WSKIPS"]],
    }
    vecs.sort()
    return inst, vecs


def _eval_chunk(args):
    from harness.drivers import c23_validate as drv
    inst, name, vecs, base = args
    out = []
    for j, (reg, hs, ws) in enumerate(vecs):
        steps = drv.steps_of(inst, reg, hs)
        o = drv.observe(steps, inst["wskips"][ws - 1], variant=(base + j) % 8)
        o.update(inst=name, reg=reg, hs=hs, ws=ws)
        out.append(o)
    return out


def run(chk):
    import random
    from harness.drivers import c23_validate as drv  # noqa: F401  (import the code under test early)

    names = QUICK if chk.quick else THOROUGH
    results = {}
    # decoration time: what @step makes of a function signature (StepSig.tla)
    from harness.checks import _stepsig
    _stepsig.run(chk)

    def mc(name):
        results[name] = tlc.run(SPECS / "config/MC_Validate.tla", SPECS / ("config/MC_Validate_%s.cfg" % name),
                                workdir=chk.work / name, workers=chk.pick(2, 4), deadlock=False,
                                jvm_opts=chk.pick(_obslib.FAST_JVM, _obslib.LONG_JVM))

    ths = [threading.Thread(target=mc, args=(n,)) for n in names]
    for t in ths:
        t.start()
    for t in ths:
        t.join()
    if not chk.quick:
        # the intended design (flag by isinstance) satisfies the strict HITL theorem
        res = tlc.run(SPECS / "config/MC_Validate.tla", SPECS / "config/MC_Validate_strict_kinds.cfg",
                      workdir=chk.work / "strict", workers=4, deadlock=False)
        chk.record_tlc("Validate/strict_kinds(Dev=FALSE)", res)
        chk.require_tlc_ok("strict_kinds", res)

    # the drawn representation is closed for every ACCEPTED graph (Inv_Repr in every instance above); for classes
    # validate() rejects it is not (an accepted base StopEvent next to the workflow's own stop class): TLC must say so
    res = tlc.run(SPECS / "config/MC_Validate.tla", SPECS / "config/MC_Validate_repr_sanity.cfg",
                  workdir=chk.work / "repr_sanity", workers=1, deadlock=False, jvm_opts=_obslib.FAST_JVM)
    chk.record_tlc("Validate/repr_sanity", res, count=False)
    if res.violated != "Inv_ReprAnyClass":
        raise Machinery("sanity run repr_sanity: expected a violation of Inv_ReprAnyClass, got %s" % (res.violated or res.error))

    insts, allvecs = {}, []
    rng = random.Random(chk.seed)
    sampled = False
    for name in names:
        res = results[name]
        chk.record_tlc("Validate/" + name, res)
        if res.violated:
            chk.violation("model:" + res.violated,
                          "Validate.tla: declarative WellFormed/Hitl and the implementation-shaped procedure "
                          "disagree on a graph (%s)" % res.violated, {"cfg": name, "trace": res.trace})
            continue
        chk.require_tlc_ok(name, res)
        z = res.zero_actions()
        if z:
            raise Machinery("vacuity: actions never taken in %s: %s" % (name, z))
        inst, vecs = _tables(res)
        if 2 * len(vecs) != res.distinct:
            raise Machinery("%s: %d vectors printed but %d states" % (name, len(vecs), res.distinct))
        if len(vecs) > MAX_PER_INSTANCE:
            vecs = sorted(rng.sample(vecs, MAX_PER_INSTANCE))
            sampled = True
        insts[name] = inst
        allvecs.append((name, vecs))
        chk.add(**{"graphs_" + name: len(vecs)})

    # ---- 2. the real code
    jobs, base = [], 0
    for name, vecs in allvecs:
        step = 4000
        for k in range(0, len(vecs), step):
            jobs.append((insts[name], name, vecs[k:k + step], base + k))
        base += len(vecs)
    total = sum(len(j[2]) for j in jobs)
    if total > 60000:
        import multiprocessing as mp
        with mp.get_context("fork").Pool(min(8, os.cpu_count() or 1)) as pool:
            parts = pool.map(_eval_chunk, jobs, chunksize=1)
    else:
        parts = [_eval_chunk(j) for j in jobs]
    traces = [o for p in parts for o in p]

    # ---- 3. TLC judges
    clause_count, why_count, fam_count = Counter(), Counter(), Counter()
    sigs = set()
    drift = Counter()
    n_conf = 0
    repr_count = Counter()
    viol_seen = Counter()
    chunks = [traces[c0:c0 + CHUNK] for c0 in range(0, len(traces), CHUNK)]
    from concurrent.futures import ThreadPoolExecutor

    def ob(k):
        return _obslib.observe(chk, "obs/Obs_C23.tla", "obs/Obs_C23.cfg", {"inst": insts, "traces": chunks[k]},
                               libs=["config"], name="obs_%d" % k, workers=chk.pick(4, 4),
                               jvm=chk.pick(_obslib.FAST_JVM, _obslib.LONG_JVM), record=False)

    with ThreadPoolExecutor(max_workers=3) as ex:
        observed = list(ex.map(ob, range(len(chunks))))
    for k, chunk in enumerate(chunks):
        c0 = k * CHUNK
        verdicts, ores = observed[k]
        chk.record_tlc("obs_%d" % k, ores, count=False)
        for i, tr in enumerate(chunk, 1):
            clause, _l, feature, conf, why, hitl, rconf = verdicts[i]
            repr_count[rconf] += 1
            if rconf not in ("ok", "skipped") and repr_count[rconf] <= 3:
                chk.note("conformance drift (representation, %s): graph %s -> nodes %s edges %s" % (
                    rconf, drv.steps_of(insts[tr["inst"]], tr["reg"], tr["hs"]), tr["repr"]["nodes"], tr["repr"]["edges"]))
            clause_count[clause] += 1
            why_count[why] += 1
            fam_count[tr["family"]] += 1
            steps = drv.steps_of(insts[tr["inst"]], tr["reg"], tr["hs"])
            wskip = insts[tr["inst"]]["wskips"][tr["ws"] - 1]
            if steps:
                sigs.add(repr((sorted(repr(sorted((k, v) for k, v in s.items() if k != "name")) for s in steps), wskip)))
            if conf == "ok":
                n_conf += 1
            else:
                drift[conf] += 1
                if drift[conf] <= 3:
                    chk.note("conformance drift (%s): graph %s wskip=%s raised family=%s direct=%s flag=%s; the "
                             "implementation-shaped model expected otherwise" % (
                                 conf, steps, wskip, tr["family"], tr["direct"], tr["flag"]))
            if clause != "ok":
                key = "obs:%s:%s" % (clause, feature)
                viol_seen[key] += 1
                if viol_seen[key] <= 3:
                    what = {
                        "accepted_illformed": "validate() accepted a graph that is not well-formed (%s fails)" % feature,
                        "rejected_wellformed": "a well-formed graph was rejected (%s)" % feature,
                        "hitl_flag": "validate() returned %s but Hitl(g) is %s (%s)" % (bool(tr["flag"]), hitl, feature),
                    }[clause]
                    chk.violation(key, what, {"steps": steps, "skip_graph_checks": wskip, "observed": {
                        k: tr[k] for k in ("accepted", "flag", "family", "direct", "where")}})
                else:
                    # same shape again: counted, reported once per key above
                    if any(k["key"] == key for k in chk.known):
                        chk.known_seen[key] = chk.known_seen.get(key, 0) + 1
                    else:
                        chk.violations.append({"key": key, "what": "(repeat)", "replay": ""})
        if c0 == 0:
            acc = [t for t in chunk if t["accepted"]]
            for t in (acc[len(acc) // 3:len(acc) // 3 + 2] + chunk[len(chunk) // 2:len(chunk) // 2 + 2]):
                chk.sample({"steps": drv.steps_of(insts[t["inst"]], t["reg"], t["hs"]),
                            "wskip": insts[t["inst"]]["wskips"][t["ws"] - 1],
                            "observed": {k: t[k] for k in ("accepted", "flag", "family")}})

    # vacuity: every declarative clause must have decided some graph, and both verdicts must occur
    need = {"wellformed", "one_start", "one_stop", "stop_consumed", "consumed_not_produced",
            "produced_not_consumed", "handlers", "unreachable", "dead_end"}
    missing = need - set(why_count)
    if missing:
        raise Machinery("vacuity: no enumerated graph was decided by clause(s) %s" % sorted(missing))
    if not any(t["where"] == "define" for t in traces):
        pass
    else:
        raise Machinery("some vectors could not be defined as classes: %s" % Counter(
            t["family"] for t in traces if t["where"] == "define"))
    chk.add(evaluations=len(traces), distinct_nontrivial=len(sigs), traces_validated_against_impl=n_conf,
            by_oracle_clause=dict(why_count), by_raised_family=dict(fam_count), verdicts=dict(clause_count),
            conformance_drift=dict(drift), representation_conformance=dict(repr_count))
    chk.exhaustive = not sampled
    chk.assumptions += [
        "graphs are bounded as in the MC_Validate_*.cfg instances; event nodes are exact classes",
        "the llama_index_instrumentation shim is inert; no resources are declared, so resource validation is not exercised",
        "reading decisions where the statement is silent are listed at the top of specs/config/Validate.tla",
    ]
