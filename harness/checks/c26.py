"""C26 -- idle release and resume never lose an event or double-run a workflow (in-process stack)."""
from harness.checks import _server as sv
from harness.drivers import server_cases as scs

LEVEL = "model_checking"
RULE = ("histories on the in-process stack: idle gaps below / at / above idle_timeout followed by a send, two release/reload "
        "cycles, two concurrent senders hitting a released run, a send scheduled at the very instant of the deferred "
        "release (both callback orders), an idle announcement while a long retry delay is pending; non-trivial = a "
        "release or reload happened")


def key_of(clause, label, prog, tr, l):
    r = tr[0]
    if clause == "released_while_work_pending" and r["label"] == "retry_longer_than_idle_timeout":
        return "obs:released_while_work_pending:idle_announced_while_retry_scheduled"
    return "obs:" + clause


def run(chk):
    cases = scs.idle_cases(chk.work, quick=chk.quick)
    sv.judge(chk, "C26", cases, key_of, lambda c: "%s/gap=%d" % (c["label"], c["gap_ms"]),
             lambda tr: tr[0]["released"] or tr[0]["max_live_loops"] > 0)
    sv.design(chk, "IdleRelease", ["design_short", "design_long"], {"ascoded_short": "Inv_NoTimerLost"})
    # the whole in-process stack around one run (ServerStack.tla; the same spec every recorded execution above was validated
    # against): all its invariants and action properties on the intended design, the release-only-when-idle property
    # violated by the model of the code as it is (recorded findings)
    # ... and two variants in which a request reaches a loaded run WITHOUT the reload lock, racing the idle release between
    # its read and its abort: the cancel path before /repo fix e4696ff (design_cancel) and a lock-free fast path for sends
    sv.design(chk, "ServerStack", [chk.pick("design_quick", "design")],
              {"ascoded": "Act_ReleaseOnlyWhenTrulyIdle", "design_cancel": "Inv_ReleasedIsMarkedIdle",
               "fastpath": "Inv_ReleasedIsMarkedIdle"})
    # who keeps a (reloaded) run alive -- the garbage collector as an action of the environment (RunRefs.tla): with the
    # runtime holding its run tasks (the code as it is) no unfinished run is ever collected and no event refused; without
    # (the code before /repo fix 141e0cf) TLC must find the history of the `reload_then_gc` case above
    from harness import tlc
    from harness.core import SPECS
    res = tlc.run(SPECS / "sync/RunRefs.tla", SPECS / "sync/MC_RunRefs_ascoded.cfg", workdir=chk.work, deadlock=False, workers=2)
    chk.record_tlc("RunRefs/ascoded", res)
    if res.violated:
        chk.violation("model:RunRefs:ascoded:%s" % res.violated, "RunRefs.tla (code as it is) violates %s" % res.violated,
                      {"trace": res.trace[-8:]})
    else:
        chk.require_tlc_ok("RunRefs/ascoded", res)
    res = tlc.run(SPECS / "sync/RunRefs.tla", SPECS / "sync/MC_RunRefs_weak.cfg", workdir=chk.work, deadlock=False, workers=2)
    chk.record_tlc("RunRefs/weak", res, count=False)
    if res.violated != "Inv_NoEventLost":
        chk.note("RunRefs.tla (runs held weakly only) was expected to violate Inv_NoEventLost; TLC says %s %s" % (res.violated, res.error))
    # the DBOS stack: lifecycle lock (Lifecycle.tla) and DBOSIdleReleaseDecorator (DbosIdleRelease.tla)
    from harness.checks import _dbos_idle
    _dbos_idle.run_c26_part(chk)
