"""DBOS half of C26 and C36 (called from harness/checks/c26.py and c36.py).

run_c26_part(chk)
  1. TLC checks Lifecycle.tla (the lifecycle lock as a state machine: 2 releasers that may stall or crash, 2 senders /
     resumers, crash-timeout clock): one owner per release, completion only from 'releasing', no claim while active,
     and - under fairness - no sender stuck on 'releasing' when a crash timeout is set; and DbosIdleRelease.tla (the
     decorator's protocol) in its intended-design variant (all C26 invariants) and in the variant of the code as it is.
  2. Every path of the Lifecycle state graph (covering set) is executed on the REAL SqliteRunLifecycleLock (SQLite file,
     virtual clock); TLC validates each history against TraceLifecycle.tla and Obs_C26_dbos.tla judges it.
  3. The REAL DBOSIdleReleaseDecorator stack runs the race schedules of the check-then-send window (all orders in which
     the held sender(s) and the releaser continue); Obs_C26_dbos.tla judges, TraceDbosIdleRelease.tla validates.
run_c36_part(chk)
  TLC on DbosIdleRelease.tla (C36 liveness: design variant holds; code-as-it-is variant, where nobody creates the
  lifecycle row, is expected to violate Live_Released); the real stack is left idle below / at / above idle_timeout with
  and without the lifecycle row, then sent an event; Obs_C36_dbos.tla judges.

Violation keys are prefixed "dbos:", counters "dbos_".
"""
from __future__ import annotations

import itertools
import re
from concurrent.futures import ThreadPoolExecutor

from harness import tlc, tracecheck
from harness.core import SPECS, Machinery

_LAB = re.compile(r'^(\w+)(?:\("?(\w+)"?\))?$')
_LOCK_CMD = {"Create": "create", "BeginRelease": "begin_release", "CompleteRelease": "complete_release",
             "CrashReleaser": "crash", "TryResume": "try_begin_resume", "OwnerDone": "owner_done", "Tick": "tick"}
ASSUMPTIONS = [
    "DBOS half: dbos/Postgres are not installed; `dbos` is a names-only stub, idle_release.DBOS is a minimal fake of "
    "retrieve_workflow_async(..).get_result() and delete_workflow_async, DBOSRuntime is replaced by BasicRuntime (its "
    "run_workflow ignores the SQLite-typed serialized_state); the decorator, the SQLite lifecycle lock, "
    "EventInterceptorDecorator, TickPersistenceDecorator, SqliteWorkflowStore and the reducer are the real code",
    "DBOS half: RunLifecycleLock.create has no call site in the repository; where a scenario needs the row the harness "
    "calls the lock's own create() right after the run started ('Called when workflow starts'), and says so in the key",
    "DBOS half: PostgresRunLifecycleLock is not executed; crash-timeout takeover is exercised on the lock alone",
]


def _tlc(chk, module, cfg, expect=None, dump=None, workers=4):
    res = tlc.run(SPECS / ("dbos/MC_%s.tla" % module), SPECS / ("dbos/MC_%s_%s.cfg" % (module, cfg)), workdir=chk.work,
                  deadlock=False, workers=workers, dump=dump, extra=("-fp", "1") if dump else ())
    chk.record_tlc("dbos/%s/%s" % (module, cfg), res)
    temporal = bool(res.error and "Temporal propert" in res.error)
    if expect is None:
        if res.violated or temporal:
            chk.violation("dbos:model:%s:%s:%s" % (module, cfg, res.violated or "temporal"),
                          "%s.tla (%s) violates %s" % (module, cfg, res.violated or res.error), {"trace": res.trace[-8:]})
        else:
            chk.require_tlc_ok("%s/%s" % (module, cfg), res)
    else:
        got = res.violated or ("<temporal>" if temporal else None)
        if got != expect:
            chk.note("dbos: %s.tla (%s) was expected to violate %s; TLC says %s %s" % (module, cfg, expect, got, res.error))
    return res


def _par(*thunks):
    """run independent TLC invocations side by side (each is its own JVM); results in order"""
    with ThreadPoolExecutor(max_workers=len(thunks)) as ex:
        futs = [ex.submit(t) for t in thunks]
        return [f.result() for f in futs]


def _lock_histories(g, max_len=40):
    out = []
    for path in tlc.covering_paths(g, max_len=max_len):
        h = []
        for (_, _, label) in path:
            m = _LAB.match(label)
            if not m or m.group(1) not in _LOCK_CMD:
                continue
            h.append([_LOCK_CMD[m.group(1)]] + ([m.group(2)] if m.group(2) else []))
        if h:
            out.append(h)
    return out


def _clean(events):
    """drop the boot of the run (first loop start, the start step) - the models begin with the run waiting"""
    out, seen_start = [], False
    for e in events:
        if e["a"] == "step" and e.get("name") == "start":
            continue
        if e["a"] == "loop_start" and not seen_start:
            seen_start = True
            continue
        out.append(e)
    return out


def _judge(chk, obs, traces, keyfn, what, tag):
    verdicts, _ = tracecheck.observe(chk, "obs/%s.tla" % obs, "obs/%s.cfg" % obs, {"traces": traces}, name="dbos_" + tag)
    per_key = {}
    for i, tr in enumerate(traces, 1):
        clause = verdicts[i][0]
        if clause == "ok":
            continue
        key = keyfn(clause, tr)
        per_key[key] = per_key.get(key, 0) + 1
        if per_key[key] <= 2 or any(k["key"] == key for k in chk.known):
            chk.violation(key, what(clause, tr), {"trace": tr})
    return per_key


# ---------------------------------------------------------------------------------------------------- C26

def race_cases():
    """the check-then-send window: one or two senders are held after try_begin_resume returned None, the idle timer
    fires and the releaser is held after begin_release; then they continue in every order (one batch)."""
    cases = []
    for n in (1, 2):
        senders = ["s%d" % i for i in range(1, n + 1)]
        held = ["%s:check" % s for s in senders] + ["rel:begin"]
        for order in itertools.permutations(held):
            script = [["send", s] for s in senders] + [["advance", 10.5], ["go", list(order)], ["advance", 5],
                                                        ["send", "s9"], ["advance", 5], ["advance", 12]]
            cases.append({"label": "race/%s" % ">".join(order), "hold": held, "script": script, "n_events": 3,
                          "create_row": True, "order": list(order)})
    # the same window without the lifecycle row (the code exactly as it is): nothing is ever released
    cases.append({"label": "race_no_row", "hold": ["s1:check", "rel:begin"], "create_row": False, "n_events": 3, "order": [],
                  "script": [["send", "s1"], ["advance", 10.5], ["go", ["rel:begin", "s1:check"]], ["advance", 5],
                             ["send", "s9"], ["advance", 5], ["advance", 12]]})
    # two senders hitting a released run at the same instant: one resumer
    cases.append({"label": "two_senders_released", "hold": [], "create_row": True, "n_events": 3, "order": [],
                  "script": [["advance", 11], ["send", "s1"], ["send", "s2"], ["advance", 5], ["advance", 12]]})
    # a sender arriving while the row is 'releasing' (releaser held after begin_release): it polls, then resumes
    cases.append({"label": "sender_during_releasing", "hold": ["rel:begin"], "create_row": True, "n_events": 3, "order": [],
                  "script": [["advance", 10.5], ["send", "s1"], ["advance", 1], ["go", ["rel:begin"]], ["advance", 5],
                             ["advance", 12]]})
    # ... and the releaser continuing at once, while that sender is still polling
    cases.append({"label": "sender_during_releasing_then_release_at_once", "hold": ["rel:begin"], "create_row": True, "n_events": 3,
                  "order": [], "script": [["advance", 10.5], ["send", "s1"], ["go", ["rel:begin"]], ["advance", 5], ["advance", 12]]})
    # an INTERNAL wake-up while the run waits for input (a side step's delayed retry): idle is announced, the retry wakes the
    # run 2 s later, idle is announced again with no received tick in between (the first timer is replaced by the second);
    # an answer 0.5 s before the second timer is due must cancel it -- the answering step takes 1 s
    cases.append({"label": "internal_wakeup_then_event", "hold": [], "create_row": True, "n_events": 3, "order": [], "nudge": True,
                  "script": [["advance", 11.5], ["send", "s1"], ["advance", 3], ["advance", 4]]})
    return cases


def _c26_key(clause, tr):
    if tr["kind"] == "lock":
        return "dbos:lock:" + clause
    ev = tr["events"]
    feat = []
    if clause == "sent_event_never_processed":
        feat.append("event_behind_release_tick" if any(e["a"] == "loop_exit" and e.get("stranded_events", 0) > 0 for e in ev)
                    else "not_stranded_in_mailbox")
    if clause == "released_while_work_pending":
        feat.append("event_received_before_release_tick" if any(
            e["a"] == "loop_exit" and e.get("result") == "IdleReleasedEvent" and (e.get("unanswered", 0) > 0 or e.get("running_steps", 0) > 0)
            for e in ev) else "event_queued_at_release")
    if clause in ("sent_event_never_processed", "released_while_work_pending"):
        if any(e["a"] == "check" and e["res"] == "none" for e in ev) and any(e["a"] == "begin" and e["res"] == "true" for e in ev):
            feat.append("check_then_send_window")
        feat.append("row_created_by_harness" if tr["create_row"] else "no_row")
    return "dbos:" + ":".join([clause] + feat)


def _fmt(events):
    return " ".join("%s%s" % (e["a"], ":" + str(e.get("res") or e.get("tick") or e.get("who") or e.get("uid") or e.get("result")
                                                 or e.get("name") or "")) for e in events)


def run_c26_part(chk):
    from harness.drivers import dbos_lifecycle as drv

    # ---- 1. design level (independent TLC runs side by side)
    dump = chk.work / "g_lock"
    runs = [lambda: _tlc(chk, "Lifecycle", "quick"),
            lambda: _tlc(chk, "Lifecycle", "quick_g", dump=dump, workers=1),
            lambda: _tlc(chk, "DbosIdleRelease", "design" if chk.quick else "design3"),
            lambda: _tlc(chk, "DbosIdleRelease", "ascoded")]
    if not chk.quick:
        runs += [lambda: _tlc(chk, "Lifecycle", "nocreate"),
                 lambda: _tlc(chk, "Lifecycle", "seeded", expect="Act_CompleteFromReleasing"),
                 lambda: _tlc(chk, "DbosIdleRelease", "created_lost", expect="Inv_NoEventLost"),
                 lambda: _tlc(chk, "DbosIdleRelease", "created_busy", expect="Inv_ReleasedOnlyIdle"),
                 lambda: _tlc(chk, "Lifecycle", "aba", expect="Act_OwnCompletion")]
    # the graph dump is needed first; the other model runs continue while the real code is being driven
    pool = ThreadPoolExecutor(max_workers=len(runs))
    futs = [pool.submit(r) for r in runs]
    res_g = futs[1].result()
    if res_g.zero_actions():
        raise Machinery("vacuity: Lifecycle actions never taken: %s" % res_g.zero_actions())

    # ---- 2. the real lock on the paths of the model's graph
    g = tlc.load_dot(str(dump) + ".dot")
    hist = _lock_histories(g)
    n_all = len(hist)
    cap = chk.pick(150, 100000)
    if len(hist) > cap:
        # the histories with takeovers / crashes / several claims first, the rest evenly spread
        hist.sort(key=lambda h: -(sum(1 for c in h if c[0] in ("tick", "crash")) + 2 * sum(1 for c in h if c[0] == "try_begin_resume")))
        rest = hist[cap // 2:]
        hist = hist[: cap // 2] + rest[:: max(1, len(rest) // (cap - cap // 2))][: cap - cap // 2]
    # a run that has been active (or released) for longer than the crash timeout before its release begins: the release in
    # progress must still be respected (fixed histories; the graph has them too, but not always in the quick sample)
    hist += [[["create"], ["tick"], ["tick"], ["tick"], ["begin_release", "r1"], ["try_begin_resume", "s1"], ["tick"],
              ["try_begin_resume", "s1"], ["complete_release", "r1"], ["try_begin_resume", "s1"], ["owner_done", "s1"]],
             [["create"], ["tick"], ["tick"], ["tick"], ["begin_release", "r1"], ["complete_release", "r1"], ["tick"], ["tick"], ["tick"],
              ["try_begin_resume", "s1"], ["owner_done", "s1"], ["tick"], ["tick"], ["tick"], ["begin_release", "r2"],
              ["try_begin_resume", "s2"], ["complete_release", "r2"]]]
    db = str(chk.work / "lock.sqlite")
    lock_traces = [drv.run_lock_history(db, h, T=2, fresh=(i == 0)) for i, h in enumerate(hist)]
    obs_lock = [{"kind": "lock", "steps": tr} for tr in lock_traces]

    # ---- 3. the real decorator stack: the check-then-send window in every order
    deco = []
    for c in race_cases():
        r = drv.run_deco_case(str(chk.work / "deco.sqlite"), c)
        r["events"] = _clean(r["events"])
        r.update(kind="deco", complete=not r["pending_gates"], order=c["order"])
        deco.append(r)

    results = [f.result() for f in futs]
    pool.shutdown()
    if not chk.quick and results[-1].violated == "Act_OwnCompletion":
        chk.note("dbos: observation (outside the statement): a releaser stalled beyond the crash timeout can complete a "
                 "LATER release of the same run (complete_release carries no release identity) - Lifecycle.tla/aba")

    def what(clause, tr):
        if tr["kind"] == "lock":
            return "lock history %s: %s" % ([s["cmd"] + [s["res"], s["row"]] for s in tr["steps"]], clause)
        return "%s: %s (senders %s, answers %d, events: %s)" % (tr["label"], clause, tr["senders"], tr["answers"], _fmt(tr["events"]))
    (reached, tres), per_key, (dreached, _) = _par(
        lambda: tracecheck.conform(chk, "dbos/TraceLifecycle.tla", "dbos/TraceLifecycle.cfg",
                                   {"releasers": ["r1", "r2"], "senders": ["s1", "s2"], "T": 2, "traces": lock_traces},
                                   name="dbos_trace_lock", workers=4),
        lambda: _judge(chk, "Obs_C26_dbos", obs_lock + deco, _c26_key, what, "c26"),
        lambda: tracecheck.conform(chk, "dbos/TraceDbosIdleRelease.tla", "dbos/TraceDbosIdleRelease.cfg",
                                   {"senders": ["s1", "s2", "s9"], "n_events": 3,
                                    "traces": [{"create_row": d["create_row"], "events": d["events"]} for d in deco]},
                                   name="dbos_trace_deco", workers=4))
    matched = sum(1 for i, tr in enumerate(lock_traces, 1) if reached.get(i, 0) == len(tr))
    if matched < len(lock_traces):
        i = next(i for i, tr in enumerate(lock_traces, 1) if reached.get(i, 0) < len(tr))
        k = reached.get(i, 0)
        chk.note("dbos: conformance drift (lock): history %s: step %d (%s -> %s, row %s) is not a step of Lifecycle.tla" % (
            [c["cmd"] for c in lock_traces[i - 1]][: k + 1], k + 1, lock_traces[i - 1][k]["cmd"], lock_traces[i - 1][k]["res"],
            lock_traces[i - 1][k]["row"]))
    dmatched = sum(1 for i, d in enumerate(deco, 1) if dreached.get(i, 0) == len(d["events"]))
    for i, d in enumerate(deco, 1):
        if d["label"] == "internal_wakeup_then_event":
            continue          # (DbosIdleRelease.tla has no internal wake-ups: judged by the observer only)
        if dreached.get(i, 0) < len(d["events"]) and len([n for n in chk.notes if "drift (deco)" in n]) < 3:
            k = dreached.get(i, 0)
            chk.note("dbos: conformance drift (deco) %s: event %d %s is not a step of DbosIdleRelease.tla" % (d["label"], k + 1, d["events"][k]))
    released = sum(1 for d in deco if any(e["a"] == "loop_exit" and e.get("result") == "IdleReleasedEvent" for e in d["events"]))
    chk.add(dbos_lock_histories_in_graph=n_all, dbos_lock_histories=len(lock_traces), dbos_lock_histories_conforming=matched,
            dbos_deco_runs=len(deco), dbos_deco_runs_conforming=dmatched, dbos_deco_runs_with_release=released,
            dbos_failing_by_key=per_key, dbos_evaluations=len(lock_traces) + len(deco),
            dbos_distinct_nontrivial=released + sum(1 for tr in lock_traces
                                                    if any(s["cmd"][0] == "try_begin_resume" and s["res"] != "none" for s in tr)),
            dbos_traces_validated_against_impl=matched + dmatched)
    chk.sample({"dbos_lock_history": [s["cmd"] + [s["res"], s["row"]] for s in lock_traces[0]]})
    chk.assumptions += [a for a in ASSUMPTIONS if a not in chk.assumptions]


# ---------------------------------------------------------------------------------------------------- C36

def idle_cases(quick=True):
    cases = []
    gaps = [5.0, 9.9, 10.1, 25.0] if quick else [0.5, 5.0, 9.9, 10.0, 10.1, 15.0, 25.0, 60.0]
    for create_row in (True, False):
        for timeout in ((10.0,) if quick else (10.0, 3.0)):
            for gap in gaps:
                g = gap * timeout / 10.0
                cases.append({"label": "idle/%s/timeout=%g/gap=%g" % ("row" if create_row else "no_row", timeout, g),
                              "create_row": create_row, "idle_timeout": timeout, "n_events": 2, "gap": int(round(g * 10)),
                              "after": ["s1"], "expect_answers": 1,
                              "script": [["advance", g], ["probe", "idle"], ["send", "s1"], ["advance", 3], ["probe", "end"]]})
    # two release / reload cycles, the run finishing after the second answer
    cases.append({"label": "two_cycles", "create_row": True, "idle_timeout": 10.0, "n_events": 2, "gap": 120, "after": ["s1", "s2"],
                  "expect_answers": 2,
                  "script": [["advance", 12], ["probe", "idle"], ["send", "s1"], ["advance", 3], ["advance", 12],
                             ["send", "s2"], ["advance", 3], ["probe", "end"]]})
    # an event before the timeout keeps the run; idle again for longer than the timeout releases it
    cases.append({"label": "event_then_idle", "create_row": True, "idle_timeout": 10.0, "n_events": 3, "gap": 150, "after": ["s2"],
                  "expect_answers": 2,
                  "script": [["advance", 6], ["send", "s1"], ["advance", 15], ["probe", "idle"], ["send", "s2"], ["advance", 3],
                             ["probe", "end"]]})
    # a received event cancels the armed timer: 5 s after the answer (11 s after the first announcement) the run is still loaded
    cases.append({"label": "event_resets_timer", "create_row": True, "idle_timeout": 10.0, "n_events": 3, "gap": 50, "after": ["s2"],
                  "expect_answers": 2,
                  "script": [["advance", 6], ["send", "s1"], ["advance", 6], ["probe", "idle"], ["send", "s2"], ["advance", 3],
                             ["probe", "end"]]})
    # the same histories with a send that behaves like a database write: the control loop can pick the tick up before
    # the sender's send_event returns (the inner runtime's put_nowait never lets that happen)
    for c in list(cases):
        if c["create_row"] and (c["label"] in ("two_cycles", "event_then_idle") or c["gap"] > c["idle_timeout"] * 10):
            cases.append(dict(c, label=c["label"] + "/send_yields", send_yields=3))
    return cases


def _c36_key(clause, tr):
    feat = []
    if clause == "not_released_after_idle_timeout":
        if any(e["a"] == "begin" and e["res"] == "false" for e in tr["events"]) and not tr["create_row"]:
            feat.append("no_lifecycle_row")
        elif not any(e["a"] == "begin" for e in tr["events"]):
            feat.append("timer_never_fired")
    if clause == "send_after_idle_failed":
        ev = tr["events"]
        bad = next(i for i, e in enumerate(ev) if e["a"] == "send_done" and not e["ok"])
        feat.append(ev[bad].get("err", "?"))
        if any(e["a"] == "loop_start" for e in ev[:bad]) and ev[bad - 1]["a"] == "check" and ev[bad - 1]["res"] == "released":
            feat.append("reload_after_an_earlier_reload_with_pending_tick")
        feat.append("row_created_by_harness" if tr["create_row"] else "no_row")
    return "dbos:" + ":".join([clause] + feat)


def run_c36_part(chk):
    from harness.drivers import dbos_lifecycle as drv

    _par(lambda: _tlc(chk, "DbosIdleRelease", "design" if chk.quick else "design3"),
         lambda: _tlc(chk, "DbosIdleRelease", "created_rest"),
         lambda: _tlc(chk, "DbosIdleRelease", "ascoded_c36", expect="<temporal>"),
         *([] if chk.quick else [lambda: _tlc(chk, "DbosIdleRelease", "created_resume", expect="Inv_ResumeSucceeds")]))
    runs = []
    for c in idle_cases(chk.quick):
        r = drv.run_deco_case(str(chk.work / "deco36.sqlite"), c)
        r["events"] = _clean(r["events"])
        r.update(gap=c["gap"], after=c["after"], expect_answers=c["expect_answers"])
        runs.append(r)
    def what(clause, tr):
        return "%s: %s (row %s, idle_marked %s, live loops %d; events: %s)" % (
            tr["label"], clause, tr["row"], tr["idle_marked"], tr["live"], _fmt(tr["events"]))
    per_key, (dreached, _) = _par(
        lambda: _judge(chk, "Obs_C36_dbos", runs, _c36_key, what, "c36"),
        lambda: tracecheck.conform(chk, "dbos/TraceDbosIdleRelease.tla", "dbos/TraceDbosIdleRelease.cfg",
                                   {"senders": ["s1", "s2"], "n_events": 2,
                                    "traces": [{"create_row": d["create_row"], "events": d["events"]}
                                               for d in runs if d["n_events"] == 2]},
                                   name="dbos_trace_deco36", workers=4))
    sub = [d for d in runs if d["n_events"] == 2]
    dmatched = sum(1 for i, d in enumerate(sub, 1) if dreached.get(i, 0) == len(d["events"]))
    for i, d in enumerate(sub, 1):
        if dreached.get(i, 0) < len(d["events"]) and len([n for n in chk.notes if "drift (deco36)" in n]) < 3:
            k = dreached.get(i, 0)
            chk.note("dbos: conformance drift (deco36) %s: event %d %s is not a step of DbosIdleRelease.tla" % (d["label"], k + 1, d["events"][k]))
    longer = sum(1 for r in runs if r["gap"] > r["idle_timeout"] * 10)
    chk.add(dbos_idle_runs=len(runs), dbos_idle_runs_conforming=dmatched, dbos_idle_runs_longer_than_timeout=longer,
            dbos_failing_by_key=per_key, dbos_evaluations=len(runs), dbos_distinct_nontrivial=longer,
            dbos_traces_validated_against_impl=dmatched)
    chk.sample({"dbos_idle_case": runs[2]["label"], "events": [e["a"] for e in runs[2]["events"]]})
    chk.assumptions += [a for a in ASSUMPTIONS if a not in chk.assumptions]
