"""C14 -- pending retries and waiter timeouts survive idle release and restart."""
from harness.checks import _server as sv
from harness.drivers import server_cases as scs

LEVEL = "model_checking"
RULE = ("configurations = idle_timeout shorter / longer than the retry delay or waiter timeout; crash points = process stop "
        "after each of the last persisted ticks while the timer is pending, then restart; virtual time is driven far "
        "past every deadline; non-trivial = a timer was pending at release/restart")


def key_of(clause, label, prog, tr, l):
    r = tr[0]
    if clause in ("pending_retry_never_took_effect", "pending_waiter_timeout_never_took_effect", "run_stays_running_forever"):
        if r["via"] == "idle_release" and r["released"] and r["timer_pending_at_release"]:
            return "obs:%s:released_for_idleness_with_timer_only_in_runner_heap" % clause
        if r["via"] == "restart":
            return "obs:%s:timer_not_rescheduled_after_restart" % clause
    return "obs:" + clause


def run(chk):
    cases = scs.c14_cases(chk.work, quick=chk.quick)
    sv.judge(chk, "C14", cases, key_of,
             lambda c: "%s/%s/idle_timeout=%d" % (c["via"], c["kind"], c["idle_timeout_ms"]) + ("/k=%d" % c["seq"] if c["via"] == "restart" else ""),
             lambda tr: tr[0]["timer_pending_at_release"])
    sv.design(chk, "IdleRelease", ["design_short", "design_long", "ascoded_long"], {"ascoded_short": "Inv_NoTimerLost"})
