"""C13 -- a server restart at any persisted point resumes without losing work."""
from harness import tlc
from harness.checks import _engine as eg
from harness.core import SPECS
from harness.drivers import server as sv
from harness.programs import scenarios as sc

LEVEL = "model_checking"
RULE = ("programs = order-insensitive deterministic workflows (fan-out with retries + collecting step; waiter); the real "
        "WorkflowServer stack on SqliteWorkflowStore; for each gate-release order (fifo / lifo / seeded random) EVERY "
        "persisted tick k is a crash point: the process stops right after append_tick k, a new server on the same file "
        "resumes and runs to the end; one case per crash point; non-trivial = the prefix ends inside the run")


def key_of(clause, label, prog, tr, l):
    # one verdict per crash point: each item carries exactly one case
    rec = tr[0]
    if clause in ("resumed_run_never_finishes", "resumed_result_differs", "resumed_state_store_differs"):
        if rec["mailbox"] > 0:
            return "obs:%s:events_in_mailbox_at_crash" % clause
        if rec["last_tick"] in ("result", "wtimeout", "idlecheck", "timeout", "cancel"):
            return "obs:%s:commands_of_last_persisted_tick_not_replayed" % clause
        if rec["pending_retry"]:
            return "obs:%s:delayed_retry_in_timer_heap_at_crash" % clause
        if rec.get("buffered_retry"):
            return "obs:%s:due_retry_in_tick_buffer_at_crash" % clause
    if clause in ("resumed_run_fails", "resumed_run_never_finishes", "resumed_result_differs", "resumed_state_store_differs",
                  "persisted_history_not_replayable") and rec["k"] >= 1000:
        # cause feature: the process that stopped was itself a RESUMED one -- its ticks were appended to the log of the first
        # process, recorded against the state as its start-up rewind had laid it out
        return "obs:%s:second_stop_tick_log_spans_a_resume:k=%d" % (clause, rec["k"])
    if clause in ("finished_run_was_rerun", "finished_run_not_finalized") and rec["res"].get("idle_marked_at_restart"):
        return "obs:%s:handler_stored_idle_is_reloaded_on_demand_not_finalized" % clause
    return "obs:" + clause


def run(chk):
    items = []
    progs = [("resumable(2,2,3,1)", sc.resumable(2, 2, 3, 1), ()),
             ("resumable_wait", sc.resumable_wait(), (("Resp", "x0", 1),)),
             # a wait_for_event whose timeout fires (the step goes on after its TimeoutError): the waiter_timeout tick is part
             # of the persisted history that a restart rebuilds the run from
             ("wait_timeout_then_stop", sc.wait_timeout_then_stop(5), ()),
             # equal-valued inputs: one running, one queued at the stop
             ("resumable_equal(2)", sc.resumable_equal(2), ())]
    if not chk.quick:
        progs += [("resumable(1,3,2,1)", sc.resumable(1, 3, 2, 1), ()), ("resumable(2,2,3,1,delay=2)", sc.resumable(2, 2, 3, 1, 2), ())]
    orders = [("fifo", 0), ("lifo", 0)] if chk.quick else [("fifo", 0), ("lifo", 0), ("rand", chk.seed), ("rand", chk.seed + 1)]
    n = 0
    for (label, prog, ext) in progs:
        for (order, seed) in orders:
            wd = chk.work / ("c13_%d" % n)
            wd.mkdir(parents=True, exist_ok=True)
            n += 1
            for c in sv.crash_cases(prog, wd, order=order, seed=seed, ext=ext):
                items.append(("%s/%s%d/k=%d" % (label, order, seed, c["k"]), prog, ext, [c], [["crash_after_tick", c["k"]]]))
    # a user cancel: the cancel tick is persisted, the status write is not -> the restart must finalize, not re-run
    wd = chk.work / "c13_cancel"
    wd.mkdir(parents=True, exist_ok=True)
    for (lbl, cprog, after) in (("pipeline+cancel", sc.pipeline(), 0), ("resumable(2,2,3,1)+cancel", sc.resumable(2, 2, 3, 1), 2)):
        for c in sv.crash_cases(cprog, wd, order="fifo", seed=after, cancel_after=after,
                                ks=lambda kinds: [i + 1 for i, k in enumerate(kinds) if k == "cancel"]):
            items.append(("%s/k=%d" % (lbl, c["k"]), cprog, (), [c], [["cancel", "crash_after_tick", c["k"]]]))
    # a long run: the persisted log spans several pages of the store's tick streaming (page size 100)
    wd = chk.work / "c13_long"
    wd.mkdir(parents=True, exist_ok=True)
    for (n_ev, order) in chk.pick([(30, "fifo"), (30, "lifo"), (28, "lifo")], [(26, "lifo"), (28, "lifo"), (30, "fifo"), (30, "lifo"), (33, "lifo"), (33, "fifo")]):
        long_prog = sc.resumable(2, n_ev, 3, 0)
        for c in sv.crash_cases(long_prog, wd, order=order, seed=n_ev,
                                ks=lambda kinds: [i + 1 for i, k in enumerate(kinds) if k == "add" and i + 1 > 101][:chk.pick(2, 8)]):
            items.append(("resumable(2,%d)/%s/k=%d" % (n_ev, order, c["k"]), long_prog, (), [c], [["crash_after_tick", c["k"]]]))
    # two process stops in a row (the second process has resumed the run and persisted ticks of its own)
    wd = chk.work / "c13_double"
    wd.mkdir(parents=True, exist_ok=True)
    dprog = sc.resumable(2, 2, 3, 1)
    for c in sv.double_crash_cases(dprog, wd, k1s=chk.pick([4, 7], [3, 4, 6, 7, 9]), k2s=chk.pick([2, 4], [1, 2, 3, 4, 6]), order="fifo"):
        items.append(("resumable(2,2,3,1)/two_stops/k=%d" % c["k"], dprog, (), [c], [["crash_after_tick", c["k"] // 1000],
                                                                                   ["crash_after_tick_of_restarted_process", c["k"] % 1000]]))
    # two runs in the server at the stop: one has just ended (its status write is missing), the other is mid-run
    wd = chk.work / "c13_two"
    wd.mkdir(parents=True, exist_ok=True)
    tprog = sc.pipeline()
    for ff in (True, False):
        for c in sv.two_handler_restart_cases(tprog, wd, finished_first=ff):
            items.append(("pipeline x2/%s first/%s run" % ("finished" if ff else "unfinished", c["role"]), tprog, (), [c],
                          [["two_runs", "crash_after_final_tick_of", "h1" if ff else "h2"]]))
    # ... and the same with the OTHER run's tick log unreplayable (the run that has just ended must still be finalised)
    for ff in (True, False):
        for c in sv.two_handler_restart_cases(tprog, wd, finished_first=ff, corrupt_other=True):
            items.append(("pipeline x2/%s first/%s run next to an unreplayable log" % ("finished" if ff else "unfinished", c["role"]),
                          tprog, (), [c], [["two_runs", "crash_after_final_tick_of", "h1" if ff else "h2"], ["other_log_corrupt"]]))
    chk.add(crash_points=len(items))
    eg.standard_run(chk, "C13", None, {"case"}, items=items, key_of=key_of, conform=False,
                    nontrivial=lambda tr: not tr[0]["prefix_ends_run"])
    # the same executions (crash + restart on one database = one trace), line by line against ServerStack.tla
    from harness.checks import _server as _sv
    _sv.conform_server(chk)
    # design level: the persistence/replay model
    res = tlc.run(SPECS / "server/MC_Persistence.tla", SPECS / "server/MC_Persistence.cfg", workdir=chk.work, deadlock=False)
    chk.record_tlc("Persistence/design", res)
    chk.require_tlc_ok("Persistence/design", res)
    res = tlc.run(SPECS / "server/MC_Persistence.tla", SPECS / "server/MC_Persistence_ascoded.cfg", workdir=chk.work, deadlock=False)
    chk.record_tlc("Persistence/as_coded", res)
    if res.violated != "Inv_NoAcceptedWorkLost":
        chk.note("Persistence.tla (as coded) was expected to violate Inv_NoAcceptedWorkLost; TLC says %s %s" % (res.violated, res.error))
