"""C10 -- a waiting step resumes once, with a matching event or a timeout."""
from harness.checks import _engine as eg

LEVEL = "model_checking"
RULE = ("programs = waiter scenarios (1-2 waiters, with/without timeout, requirement k=1, waiter_event); responses = "
        "matching / duplicate / non-matching requirement / wrong type external events at any quiescence point, timer "
        "advances; non-trivial = a response arrived while a waiter existed or the deadline passed")


def nontrivial(tr):
    return any(r["e"] in ("wait_ret", "wait_timeout") for r in tr)


def response_matched_done_waiter(tr):
    """Cause feature: some event was processed while a waiter wanting its type was already resolved / timed out
    (the reducer's waiter matching does not skip such waiters, so the step's input is queued again)."""
    prev = None
    for r in tr:
        if r["e"] != "tick" or "state" not in r:
            continue
        t = r["tick"]
        if t["k"] == "add" and prev is not None:
            for sname, ws in prev["steps"].items():
                for w in ws["waiters"]:
                    if w["want"] == t["ty"] and (w["is_resolved"] or w["timed_out"]):
                        if all(k == "k" and v == str(t.get("evk", 0)) for k, v in w["reqs"].items()):
                            return True
        prev = r["state"]
    return False


def key_of(clause, label, prog, tr, l):
    if clause in ("wait_completed_twice", "waiter_event_published_twice", "timeout_after_result", "result_after_timeout",
                  "timeout_raised_twice") and response_matched_done_waiter(tr):
        return "obs:%s:response_matches_done_waiter" % clause
    return "obs:" + clause


def mark(prog, tr):
    return {}


def run(chk):
    def keep(r):
        if r["e"] == "pub":
            ok = r["p"]["k"] == "ev" and r["p"].get("ty") == "Ask"
            if ok:
                r["is_waiter_event"] = r["p"]["uid"].startswith("ask:")
            return ok
        return True
    import random
    from harness.drivers import engine_traces as et
    from harness.programs import scenarios as sc
    items = eg.collect(chk, ["wait"], max_ext=3)
    # a one-worker step whose invocations wait one after the other under ONE waiter id (each returns None after its wait)
    items += [it for it in eg.collect(chk, ["wait_queue"], max_ext=3, paths_q=20, walks_q=5, paths_t=100, walks_t=20)
              if it[0].startswith("waiter_queue")]
    # ... and a step that is invoked AGAIN after its wait has completed and it has returned None
    items += eg.collect(chk, ["rewait"], max_ext=4, paths_q=40, walks_q=10, paths_t=200, walks_t=40, depth=14)
    # "... also after the run was serialized and resumed": snapshot while the step is suspended in its wait, resume,
    # then answer (requirements are not serialised; the waiter is re-established by re-running the step)
    rng = random.Random(chk.seed)
    for (label, prog, ext) in [("waiter(reqs k=1)+resume", sc.waiter(None, {"k": 1}), [("Resp1", None), ("Resp", None)]),
                               ("two_waiters_one_step+resume", sc.two_waiters_one_step(), [("Resp1", None), ("Resp1", None), ("Resp", None), ("Resp", None)]),
                               ("waiter(timeout=5)+resume", sc.waiter(5), [("Resp", None)])]:
        for (tr, sched) in et.explore(prog, ext_menu=ext, max_depth=4, max_paths=chk.pick(6, 30), rng=random.Random(rng.random()),
                                      drain=False, max_ext=1):
            s2 = [c for c in sched]
            tr2 = et.replay_then_resume(prog, s2, ext)
            items.append((label, prog, ext, tr2, s2 + [["snapshot+resume"]]))
            # serialised a second time right after the resume (before the waiter has been re-established), resumed again;
            # the non-matching response comes first
            ext_rev = list(reversed(ext))
            tr3 = et.replay_then_resume(prog, s2, ext_rev, resumes=2)
            items.append((label + " twice", prog, ext_rev, tr3, s2 + [["snapshot+resume", 2]]))
            # ... and loaded + serialised again without being run in between
            tr4 = et.replay_then_resume(prog, s2, ext_rev, reserialize=True)
            items.append((label + " reserialized", prog, ext_rev, tr4, s2 + [["snapshot+load+snapshot+resume"]]))
    eg.standard_run(chk, "C10", None, {"wait_ret", "wait_timeout", "pub", "step_end"}, key_of=key_of, nontrivial=nontrivial,
                    keep=keep, items=items)
