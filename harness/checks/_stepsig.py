"""StepSig.tla (what @step makes of a function signature): TLC enumerates the signatures and computes the table's
answer for each; every signature is built as a real function and run through inspect_signature /
validate_step_signature and the public decorator.  Evidence attached to C23 (decoration-time half of "the workflow is
well-formed"); a mismatch is conformance drift (a note), never a verdict."""
from __future__ import annotations

from harness import tlc
from harness.core import SPECS, Machinery


def run(chk):
    from harness.drivers import step_sig as drv
    wd = chk.work / "stepsig"
    wd.mkdir(parents=True, exist_ok=True)
    cfg = chk.pick("quick", "thorough")
    res = tlc.run(SPECS / "config/MC_StepSig.tla", SPECS / ("config/MC_StepSig_%s.cfg" % cfg), workdir=wd, deadlock=False,
                  workers=2, jvm_opts=tlc.LIGHT)
    chk.record_tlc("StepSig/" + cfg, res, count=False)
    if res.violated:
        chk.note("StepSig.tla violates %s" % res.violated)
        return
    chk.require_tlc_ok("StepSig/" + cfg, res)
    vecs = [v for v in res.prints if isinstance(v, tuple) and v and v[0] == "SIG"]
    if 2 * len(vecs) != res.distinct:          # one initial state and one emitted state per signature
        raise Machinery("StepSig: %d vectors printed, %d states" % (len(vecs), res.distinct))
    n = mism = 0
    first = None
    for i, v in enumerate(sorted(vecs, key=repr)):
        _t, has_self, params, ret, outcome, ctxpos, nres, ctxtyped, acc, rets = v
        o = drv.observe(bool(has_self), list(params), ret, variant=i)
        exp = {"outcome": outcome, "ctx": int(ctxpos), "ctx_typed": 1 if ctxtyped else 0, "nres": int(nres),
               "acc": sorted(acc), "rets": sorted(rets)}
        got = {k: o[k] for k in exp}
        n += 1
        bad = got != exp or (has_self and o["deco"] != outcome)
        if bad:
            mism += 1
            if first is None:
                first = {"self": bool(has_self), "params": list(params), "ret": ret, "table": exp, "real": got, "decorator": o["deco"]}
    if first:
        chk.note("conformance drift (StepSig): %s" % str(first)[:500])
    chk.add(stepsig_signatures=n, stepsig_mismatches=mism)
