"""C32 -- generated deployment ids are DNS-1035 labels derived from the name / carrying a random suffix.

1. TLC enumerates the input vectors <<name, mode, draw>> of DeployId.tla (all class strings up to a length, long
   families around the 57/63 boundaries) and checks the statement's clauses on the pipeline model: strictly on the
   intended design (Dev_SuffixOnSanitizedLength = FALSE) and, on the model of today's code, with the carve-out
   KF_SanitizedLen that characterises the known failure shape exactly.
2. Every enumerated class string is concretised (several representatives per class incl. Unicode, seeded) and
   passed to the real find_deployment_id with `random` seeded (digit-first and letter-first suffix draws).
3. TLC (Obs_C32.tla, extending DeployId.tla) judges each returned id against the statement and reports
   character-by-character conformance to the pipeline model as evidence.
"""
from __future__ import annotations

import os
import random

from harness import tlc, tracecheck
from harness.core import SPECS, Machinery

LEVEL = "model_checking"
RULE = ("inputs = all strings over the classes {lower, upper, digit, other-ascii, hyphen, non-ascii} up to length 5 "
        "(thorough 6) plus long families around the 57/63 boundaries, x mode {plain, forced suffix, one collision}, "
        "enumerated by TLC as the states of DeployId.tla; each concretised with seeded representatives (incl. Unicode) "
        "and three seeds of `random`; non-trivial = distinct abstract (name, mode)")
BATCH = 40000


def _finding_key(rec):
    """failing clause + cause features, read from the input and the returned ids"""
    na = sum(1 for c in rec["alnum"] if c)
    idc = "".join(rec["ids"][0])
    if idc.startswith("d-") and rec["alnum"] and next((c for c in rec["alnum"] if c), "").isdigit():
        cause = "d_prefix"
    elif "-" in idc:
        cause = "inner_hyphen"
    else:
        cause = "plain"
    return "alnums=%d:%s:idlen=%s" % (na, cause, "ge3" if len(idc) >= 3 else "lt3")


def run(chk):
    from harness.drivers import deploy_id as drv

    rng = random.Random(chk.seed)
    # ---- 1. TLC: design variant (strict), code variant (carve-out) + enumeration
    res = tlc.run(SPECS / "tables/MC_DeployId.tla", SPECS / "tables/MC_DeployId_design.cfg", workdir=chk.work,
                  deadlock=False, coverage=False)
    chk.record_tlc("DeployId/design", res)
    if res.violated:
        chk.violation("model:design:" + res.violated, "the intended design violates %s" % res.violated, {"trace": res.trace})
    else:
        chk.require_tlc_ok("design", res)
    grid = chk.pick("quick", "thorough")
    dump = chk.work / "g"
    res = tlc.run(SPECS / "tables/MC_DeployId.tla", SPECS / ("tables/MC_DeployId_%s.cfg" % grid), workdir=chk.work,
                  deadlock=False, dump=dump, coverage=False)
    chk.record_tlc("DeployId/" + grid, res)
    if res.violated:
        chk.violation("model:" + res.violated, "DeployId.tla (code variant, known shape carved out) violates %s" % res.violated,
                      {"trace": res.trace})
        return
    chk.require_tlc_ok(grid, res)
    states = drv.cases_from_dot(str(dump) + ".dot")
    if len(states) != res.distinct:
        raise Machinery("state dump has %d vectors, TLC reported %d distinct states" % (len(states), res.distinct))
    groups = {}
    for (nm, mode, draw) in states:
        groups.setdefault((nm, mode), set()).add(draw)

    # ---- 2. the real function
    seeds = drv.draw_seeds(chk.seed * 1000 + 1)
    recs = []
    n_conc = chk.pick(1, 2)
    for (nm, mode), draws in sorted(groups.items()):
        for rep in range(n_conc if len(nm) > 0 else 1):
            name, alnum = drv.concretise(nm, rng)
            order = sorted(draws) + ["alpha2"]
            ids = [drv.call(name, mode, seeds[d]) for d in order]
            for v in ids:
                if not isinstance(v, str):
                    raise Machinery("find_deployment_id returned %r" % (v,))
            recs.append({"cls": list(nm), "alnum": alnum, "mode": mode, "ids": [list(v) for v in ids],
                         "draws": [d.replace("alpha2", "alpha") for d in order], "name": name})

    # ---- 3. TLC judges (Obs_C32 extends tables/DeployId.tla)
    os.environ["JAVA_TOOL_OPTIONS"] = "-DTLA-Library=%s" % (SPECS / "tables")
    conf = 0
    drift = 0
    seen_keys = {}
    disagree = 0
    for b in range(0, len(recs), BATCH):
        part = recs[b:b + BATCH]
        verdicts, _ = tracecheck.observe(chk, "obs/Obs_C32.tla", "obs/Obs_C32.cfg",
                                         {"traces": [{k: r[k] for k in ("cls", "alnum", "mode", "ids", "draws")} for r in part]},
                                         name="obs_%d" % (b // BATCH), workers=8)
        for j, r in enumerate(part, 1):
            clause, cf = verdicts[j][0], verdicts[j][2] if len(verdicts[j]) > 2 else "conf"
            if cf == "harness:classes":
                raise Machinery("harness concretisation inconsistent with the class string: %r" % r)
            if cf == "conf":
                conf += 1
            else:
                drift += 1
                if drift <= 3:
                    chk.note("conformance drift: id %r for name %r (mode %s) differs from DeployId.tla's pipeline" % (
                        ["".join(i) for i in r["ids"]], r["name"], r["mode"]))
            # the repository's own validator must agree with the observer's DNS-1035 clause (cross-check, not a verdict)
            ok_repo = all(drv.repo_validator_accepts("".join(i)) for i in r["ids"])
            if ok_repo != (clause != "dns1035"):
                disagree += 1
            if clause != "ok":
                key = "obs:%s:%s" % (clause, _finding_key(r))
                seen_keys[key] = seen_keys.get(key, 0) + 1
                # a few witnesses per key are written out; a listed (known) key is always passed on so that it is counted
                if seen_keys[key] <= 3 or any(k["key"] == key for k in chk.known):
                    chk.violation(key, "find_deployment_id(%r%s) -> %s: clause '%s' fails (name has %d alphanumerics)" % (
                        r["name"], "" if r["mode"] == "plain" else ", mode=" + r["mode"],
                        ["".join(i) for i in r["ids"]], clause, sum(1 for c in r["alnum"] if c)),
                        {"name": r["name"], "classes": r["cls"], "mode": r["mode"], "ids": ["".join(i) for i in r["ids"]],
                         "seeds": seeds})
    if disagree:
        chk.note("the repository's validate_dns_1035_label disagrees with the observer's DNS-1035 clause on %d ids" % disagree)
    chk.add(evaluations=sum(len(r["ids"]) for r in recs), distinct_nontrivial=len(groups),
            traces_validated_against_impl=conf, names=len(recs), failing_by_key=seen_keys)
    for r in (recs[len(recs) // 4], recs[len(recs) // 2], recs[-1]):
        chk.sample({"name": r["name"], "classes": "".join(r["cls"]), "mode": r["mode"], "ids": ["".join(i) for i in r["ids"]]})
    chk.exhaustive = True
    chk.assumptions += [
        "kubernetes is not installed: the availability check validate_deployment_id is stubbed (free / in use once); "
        "llama_agents.control_plane is imported through a namespace stub, k8s_client.find_deployment_id and "
        "_append_random_suffix are the real code",
        "'the name's lowercase alphanumerics' = the ascii [a-z0-9] characters of the lower-cased name; representatives whose "
        "lower-casing changes the number of characters (e.g. U+0130) are not used",
        "'carries a random suffix' is observed as: five hex characters at the end, after a hyphen or alone, differing "
        "between seeds of `random`",
    ]
