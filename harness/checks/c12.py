"""C12 -- pausing to a serialized context and resuming gives the same result."""
import random

from harness.checks import _engine as eg
from harness.drivers import engine_traces as et
from harness.programs import scenarios as sc

LEVEL = "model_checking"
RULE = ("programs = order-insensitive deterministic workflows (fan-out with retries and a collecting step; a waiter with a "
        "requirement); for each explored schedule, EVERY prefix is a snapshot point: ctx.to_dict -> JSON -> "
        "Context.from_dict -> run in a fresh workflow object, compared with the uninterrupted continuation; "
        "non-trivial = work was queued, running, collecting, waiting or retrying at the snapshot")


def key_of(clause, label, prog, tr, l):
    rec = tr[l - 1] if 0 < l <= len(tr) else {}
    if clause in ("retry_count_reset_for_running_invocation", "retry_budget_exceeded_across_resume"):
        return "obs:%s:in_progress_serialized_as_bare_event" % clause
    if clause.endswith("_with_delayed_retry_pending"):
        return "obs:%s:delayed_retry_pending_at_snapshot" % clause[:-len("_with_delayed_retry_pending")]
    if clause.endswith("_with_running_recovery_history"):
        return "obs:%s:in_progress_serialized_as_bare_event" % clause[:-len("_with_running_recovery_history")]
    return "obs:" + clause


def run(chk):
    from harness.checks import _ctxlife
    # the life cycle of the context object across runs (to_dict / from_dict / run(ctx=...) are its edges): CtxLife.tla
    _ctxlife.run(chk)
    # the schedule sample of every program: a baseline that does not depend on the seed (the seed-0 stream), plus -- under
    # another seed -- that seed's sample on top: a different seed adds schedules, it never takes the baseline's away
    streams = [random.Random(0)] + ([random.Random(chk.seed)] if chk.seed else [])
    items = []
    for (label, prog, ext) in sc.family("resume", quick=chk.quick):
        paths, seen_s = [], set()
        for rng in streams:
            for (tr, sched) in et.explore(prog, ext_menu=ext, max_depth=chk.pick(14, 18), max_paths=chk.pick(4, 150),
                                          rng=random.Random(rng.random()), timeout_advance=False, drain=True, max_ext=2):
                if repr(sched) not in seen_s:
                    seen_s.add(repr(sched))
                    paths.append((tr, sched))
        for (tr, sched) in paths:
            cases = et.snapshot_cases(prog, sched, ext)
            # cause feature for keys: was a delayed retry sitting in the timer heap at the snapshot?
            items.append((label, prog, ext, cases, sched))
    chk.add(snapshot_points=sum(len(it[3]) for it in items))
    eg.standard_run(chk, "C12", None, {"case"}, items=items, key_of=key_of, conform=False,
                    nontrivial=lambda tr: any(c["inprog"] for c in tr))
