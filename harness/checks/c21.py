"""C21 -- the single-connection SQLite store behaves like the per-call-connection store.

1. TLC checks ConnMode.tla (product of a per-call store and a single_connection=True store over handler, event,
   tick and state-store operations): strict variant (Dev_StateStoreClosesShared = FALSE): results always equal;
   as-is variant: they differ only after/inside a state-store operation on the shared connection, and histories
   without state-store operations are equal even today; a sanity run yields TLC's witness of the known shape.
2. Covering paths of the dumped state graph are applied to two real SqliteWorkflowStore objects (per-call and
   single_connection=True; sqlite files under chk.work) and, with the known defect masked (the shared connection's
   close() neutralised by the harness), to a third one; a covering subset of the C16 schedules (EventLog.tla graph:
   appends, subscriptions, pulls, ticks, reconnects) and of the C24 histories (HandlerStore.tla graph) is replayed
   in both modes as well.
3. TLC judges every pair of recordings with Obs_C21 (verdict) and validates the per-operation results against
   TraceConnMode (conformance).
"""
from __future__ import annotations

import re

from harness import tlc, tracecheck
from harness.core import SPECS, Machinery

LEVEL = "model_checking"
RULE = ("histories = covering paths of TLC's state graph of ConnMode.tla (handler / event / tick / state-store "
        "operations), plus covering subsets of the C16 schedules and C24 histories, each replayed on a per-call and a "
        "single-connection SqliteWorkflowStore; non-trivial = at least two operations used the shared connection")

_OP = re.compile(r'k \|-> "(\w+)", a \|-> "([\w-]+)", v \|-> (\d+)')


def _ops(labels):
    out = []
    for lab in labels:
        m = _OP.search(lab)
        if not m:
            raise Machinery("cannot parse action label %r" % lab)
        out.append({"k": m.group(1), "a": m.group(2), "v": int(m.group(3))})
    return out


def _tlc(chk, mod, cfg, name, dump=None, expect=None, workers=4, count=True):
    res = tlc.run(SPECS / mod, SPECS / cfg, workdir=chk.work, deadlock=False, dump=dump, workers=workers,
                  extra=("-fp", "1"))
    chk.record_tlc(name, res, count=count and expect is None)
    if expect:
        if res.error or res.violated != expect:
            raise Machinery("sanity run %s: expected a violation of %s, got %s %s" % (name, expect, res.violated, res.error))
        return res
    if res.violated:
        chk.violation("model:%s:%s" % (name, res.violated), "the model (%s) violates %s" % (name, res.violated),
                      {"cfg": str(cfg), "trace": res.trace})
        return res
    chk.require_tlc_ok(name, res)
    return res


def run(chk):
    from harness.drivers import conn_mode as drv
    from harness.drivers import event_log as evdrv

    M = "stores/MC_ConnMode.tla"
    gdump = chk.work / "g_conn"
    if chk.quick:
        asis = _tlc(chk, M, "stores/MC_ConnMode_quick_asis.cfg", "ConnMode/asis", dump=gdump)
        strict = _tlc(chk, M, "stores/MC_ConnMode_quick_strict.cfg", "ConnMode/strict")
        keys = ("a",)
    else:
        big = _tlc(chk, M, "stores/MC_ConnMode_thorough_asis.cfg", "ConnMode/asis", workers=16)
        strict = _tlc(chk, M, "stores/MC_ConnMode_thorough_strict.cfg", "ConnMode/strict", workers=16)
        asis = _tlc(chk, M, "stores/MC_ConnMode_mid_asis.cfg", "ConnMode/mid_asis", dump=gdump)
        keys = ("a",)
    for r in (asis, strict):
        if r.ok and r.zero_actions():
            raise Machinery("vacuity: actions never taken: %s" % r.zero_actions())
    kf = None
    # graphs of the C16 / C24 models, for a covering subset of their histories
    edump, hdump = chk.work / "g_ev", chk.work / "g_h"
    ev = _tlc(chk, "server/MC_EventLog.tla", "server/MC_EventLog_quick_asis.cfg", "EventLog/asis(for schedules)",
              dump=edump, count=False)
    hs = _tlc(chk, "stores/MC_HandlerStore.tla", "stores/MC_HandlerStore_quick_asis.cfg",
              "HandlerStore/asis(for histories)", dump=hdump, workers=1, count=False)

    dbdir, cleanup = evdrv.fast_db_dir(chk.work, "db_c21")
    stores = drv.ConnStores(dbdir)
    evstores = evdrv.Stores(chk.work)
    try:
        _bind(chk, drv, stores, evstores, dbdir, asis, kf, ev, hs, gdump, edump, hdump, keys)
    finally:
        stores.close()
        evstores.close()
        cleanup()


def _shared_uses(ops):
    return sum(2 if o["k"] in ("st_set", "st_seed") else 1 for o in ops)


def _bind(chk, drv, stores, evstores, dbdir, asis, kf, ev, hs, gdump, edump, hdump, keys):
    from harness.checks import c16, c24
    from harness.drivers import event_log as evdrv
    from harness.drivers import handler_store as hdrv

    traces, meta = [], []

    def both(ops, origin, masked=True, fresh=False):
        ref = drv.run_ops(stores, "percall", ops, fresh_state_store=fresh, keys=keys)
        alt = drv.run_ops(stores, "single", ops, fresh_state_store=fresh, keys=keys)
        traces.append({"kind": "ops", "altmode": "single", "ref": ref, "alt": alt})
        meta.append({"origin": origin, "ops": ops})
        if masked and any(o["k"].startswith("st_") for o in ops):
            alt2 = drv.run_ops(stores, "masked", ops, fresh_state_store=fresh, keys=keys)
            traces.append({"kind": "ops", "altmode": "masked", "ref": ref, "alt": alt2})
            meta.append({"origin": origin + "/masked", "ops": ops})

    # ---- TLC's witness of the known shape first: shortest path of the as-is graph to a state where the modes differ
    g = None
    if asis.ok:
        g = tlc.load_dot(str(gdump) + ".dot")
        g.edges.sort()
        succ = g.succ()
        par = {i: None for i in g.init}
        order, qi, target = sorted(g.init), 0, None
        while qi < len(order) and target is None:
            sid = order[qi]
            qi += 1
            for (d, lab) in succ.get(sid, ()):
                if d not in par:
                    par[d] = (sid, lab)
                    order.append(d)
                    st = g.state(d)
                    if st["last"]["rS"] != st["last"]["rP"]:
                        target = d
                        break
        if target is None:
            raise Machinery("sanity: the as-is ConnMode graph has no state where the two modes differ")
        labs, sid = [], target
        while par[sid] is not None:
            labs.append(par[sid][1])
            sid = par[sid][0]
        labs.reverse()
        both(_ops(labs), "witness", masked=False)
    else:
        both([{"k": "st_get", "a": "a", "v": 0}, {"k": "h_query", "a": "-", "v": 0}], "witness(fallback)", masked=False)

    # ---- histories from the ConnMode graph
    n_hist = 0
    if g is not None:
        paths = tlc.covering_paths(g, max_len=12)
        limit = chk.pick(100000, 4000)
        if len(paths) > limit:
            step = len(paths) / float(limit)
            paths = [paths[int(i * step)] for i in range(limit)]
        for n, p in enumerate(paths):
            both(_ops([e[2] for e in p]), "graph", fresh=bool(n % 2))
            n_hist += 1
    chk.add(histories_from_graph=n_hist)

    # ---- covering subset of the C16 schedules, in both modes
    n_ev = 0
    if ev.ok:
        g = tlc.load_dot(str(edump) + ".dot")
        g.edges.sort()
        paths = [p for p in tlc.covering_paths(g, max_len=40) if g.state(p[0][0])["style"] == "sqlite"]
        take = chk.pick(150, 700)
        step = max(1.0, len(paths) / float(take))
        for i in range(min(take, len(paths))):
            sc = c16.path_to_schedule([e[2] for e in paths[int(i * step)]])
            if i % 2:
                sc = c16.stepwise(sc)
            a, _ = evdrv.run_schedule(evstores, "sqlite", ["s1"], sc)
            b, _ = evdrv.run_schedule(evstores, "sqlite1", ["s1"], sc)
            traces.append({"kind": "pair", "what": "eventlog", "a": a, "b": b})
            meta.append({"origin": "C16 schedule", "ops": [[(c["op"], c["u"], c["n"]) for c in bt] for bt in sc]})
            n_ev += 1
    # ---- covering subset of the C24 histories, in both modes
    n_h = 0
    if hs.ok:
        menu = [hdrv.norm_filter(f) for f in c24._prints(hs, "MENU")]
        qmenu = [f for f in menu if hdrv.num_given(f) > 0]
        g = tlc.load_dot(str(hdump) + ".dot")
        g.edges.sort()
        paths = [p for p in tlc.covering_paths(g, max_len=12) if g.state(p[0][0])["conf"]["b"] == "sqlite"]
        take = chk.pick(150, 600)
        step = max(1.0, len(paths) / float(take))
        sh = {False: None, True: None}
        for i in range(min(take, len(paths))):
            ops = c24.path_to_ops([e[2] for e in paths[int(i * step)]], menu, qmenu)
            rec = {}
            for single in (False, True):
                evs, sh[single] = hdrv.run_history("sqlite", -1, ops, dbdir=dbdir, shared=sh[single], single=single)
                rec[single] = evs
            traces.append({"kind": "pair", "what": "handlers", "a": rec[False], "b": rec[True]})
            meta.append({"origin": "C24 history", "ops": [(o["op"], o.get("id"), o.get("st"), o.get("k")) for o in ops]})
            n_h += 1
        for s in sh.values():
            if s is not None and s[1] is not None:
                s[1].close()
            if s is not None and getattr(s[0], "_persistent_conn", None) is not None:
                s[0]._persistent_conn.close()
    chk.add(c16_schedules_in_both_modes=n_ev, c24_histories_in_both_modes=n_h)

    # ---- TLC judges
    verd, _ = tracecheck.observe(chk, "obs/Obs_C21.tla", "obs/Obs_C21.cfg", {"traces": traces}, name="obs", workers=4)
    dev = verd[1][0] == "same_results" and verd[1][2] == "closed_db_after_state_store_op"
    chk.add(deviation_Dev_StateStoreClosesShared_exhibited=bool(dev))
    single_ops = [t for t in traces if t["kind"] == "ops" and t["altmode"] == "single"]
    reached, res = tracecheck.conform(chk, "stores/TraceConnMode.tla", "stores/TraceConnMode.cfg",
                                      {"dev": bool(dev), "keys": list(keys), "traces": single_ops}, name="trace", workers=4)
    total = nontriv = matched = 0
    for i, t in enumerate(single_ops, 1):
        if reached.get(i, 0) == len(t["ref"]):
            matched += 1
        elif len(chk.notes) < 8:
            k = reached.get(i, 0)
            chk.note("conformance drift: history matched %d/%d operations; first unmatched %s ref=%s alt=%s" % (
                k, len(t["ref"]), t["alt"][k]["op"], t["ref"][k]["r"], (t["alt"][k]["r"], t["alt"][k]["exc"])))
    for i, t in enumerate(traces, 1):
        total += 1
        clause, l, feat = verd[i][0], verd[i][1], (verd[i][2] if len(verd[i]) > 2 else "-")
        m = meta[i - 1]
        if t["kind"] == "ops":
            if _shared_uses(m["ops"]) >= 2:
                nontriv += 1
            if clause != "ok":
                masked = t["altmode"] == "masked"
                op = t["alt"][l - 1]["op"]["k"] if l else "-"
                if masked:
                    key = "obs:same_results:masked_close:%s:%s" % (op, feat)
                    what = ("with the known defect masked (close() of the shared connection neutralised by the harness) the "
                            "single-connection store still differs from the per-call store at operation %d (%s)" % (l, op))
                elif feat == "closed_db_after_state_store_op":
                    key = "obs:same_results:closed_db_after_state_store_op"
                    what = "single-connection store raises 'closed database' at operation %d (%s)" % (l, op)
                else:
                    key = "obs:same_results:%s:%s" % (op, feat)
                    what = "single-connection and per-call stores differ at operation %d (%s): %s" % (l, op, feat)
                chk.violation(key, what, {"history": m["ops"][:l], "percall": t["ref"][:l], "single": t["alt"][:l],
                                          "mode": t["altmode"]})
        else:
            if len(t["a"]) >= 2:
                nontriv += 1
            if clause != "ok":
                chk.violation("obs:same_results:%s" % t["what"],
                              "%s: per-call and single-connection recordings differ at event %s" % (m["origin"], l),
                              {"history": m["ops"], "percall": t["a"][: (l or 1)], "single": t["b"][: (l or 1)]})
    mid = single_ops[len(single_ops) // 2]
    chk.sample({"history": [(e["op"]["k"], e["op"]["a"], e["op"]["v"]) for e in mid["alt"]],
                "percall": [e["r"] for e in mid["ref"]], "single": [(e["r"], e["exc"]) for e in mid["alt"]]})
    chk.add(evaluations=total, distinct_nontrivial=nontriv, traces_validated_against_impl=matched)
    chk.exhaustive = chk.quick
    chk.assumptions += [
        "one handler / one run per history, state keys {a}(,{b}), values {1,2}, DictState; the state store object is "
        "created once per history or afresh for every operation (alternating)",
        "the AgentCore entrypoint itself (bedrock_agentcore is not installed) is not run: only its store configuration "
        "SqliteWorkflowStore(single_connection=True) is",
        "masked runs neutralise close() of the shared connection in the harness process to keep comparing the remaining "
        "operations; they are reported under their own keys",
        "sqlite files live on tmpfs when /dev/shm is available",
    ]
