"""Shared pieces of the server-family checks (C14, C15, C26, C36)."""
from __future__ import annotations

from harness import tlc
from harness.core import SPECS


def design(chk, module, cfgs_ok, cfgs_expect):
    """TLC on the design spec: `cfgs_ok` must hold; `cfgs_expect` = {cfg: invariant the as-coded variant violates}."""
    for c in cfgs_ok:
        res = tlc.run(SPECS / ("server/MC_%s.tla" % module), SPECS / ("server/MC_%s_%s.cfg" % (module, c)),
                      workdir=chk.work, deadlock=False, workers=4)
        chk.record_tlc("%s/%s" % (module, c), res)
        if res.violated:
            chk.violation("model:%s:%s:%s" % (module, c, res.violated),
                          "%s.tla (%s) violates %s" % (module, c, res.violated), {"trace": res.trace[-6:]})
        else:
            chk.require_tlc_ok(c, res)
    for c, inv in cfgs_expect.items():
        res = tlc.run(SPECS / ("server/MC_%s.tla" % module), SPECS / ("server/MC_%s_%s.cfg" % (module, c)),
                      workdir=chk.work, deadlock=False, workers=4)
        chk.record_tlc("%s/%s" % (module, c), res)
        if res.violated != inv:
            chk.note("%s.tla (%s, code as it is) was expected to violate %s; TLC says %s %s" % (module, c, inv, res.violated, res.error))


def judge(chk, pid, cases, key_of, label_of, nontrivial):
    from harness.checks import _engine as eg
    items = [(label_of(c), {}, (), [c], [[label_of(c)]]) for c in cases]
    # the observers of this family read no engine configuration
    import harness.checks._engine as E
    orig = E.cfg_for_tla
    E.cfg_for_tla = lambda prog: {}
    try:
        eg.standard_run(chk, pid, None, {"case"}, items=items, key_of=key_of, conform=False, nontrivial=nontrivial)
    finally:
        E.cfg_for_tla = orig
    chk.assumptions[:] = [
        "real WorkflowServer stack assembled by WorkflowServer.__init__ on SqliteWorkflowStore; starlette/uvicorn stubbed "
        "(HTTP layer not exercised); innermost basic_runtime replaced by a recording BasicRuntime subclass",
        "virtual-time event loop; datetime.now of the server runtime modules reads the virtual wall clock"]
