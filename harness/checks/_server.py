"""Shared pieces of the server-family checks (C14, C15, C26, C36)."""
from __future__ import annotations

from harness import tlc
from harness.core import SPECS


def design(chk, module, cfgs_ok, cfgs_expect):
    """TLC on the design spec: `cfgs_ok` must hold; `cfgs_expect` = {cfg: invariant the as-coded variant violates}."""
    big = module == "ServerStack"          # millions of states: no per-expression coverage counters, more workers
    for c in cfgs_ok:
        res = tlc.run(SPECS / ("server/MC_%s.tla" % module), SPECS / ("server/MC_%s_%s.cfg" % (module, c)),
                      workdir=chk.work, deadlock=False, workers=10 if big else 4, coverage=not big)
        chk.record_tlc("%s/%s" % (module, c), res)
        if res.violated:
            chk.violation("model:%s:%s:%s" % (module, c, res.violated),
                          "%s.tla (%s) violates %s" % (module, c, res.violated), {"trace": res.trace[-6:]})
        else:
            chk.require_tlc_ok(c, res)
    for c, inv in cfgs_expect.items():
        res = tlc.run(SPECS / ("server/MC_%s.tla" % module), SPECS / ("server/MC_%s_%s.cfg" % (module, c)),
                      workdir=chk.work, deadlock=False, workers=4, coverage=not big)
        chk.record_tlc("%s/%s" % (module, c), res)
        if res.violated != inv:
            chk.note("%s.tla (%s, code as it is) was expected to violate %s; TLC says %s %s" % (module, c, inv, res.violated, res.error))


def conform_server(chk):
    """Every execution of the real server stack recorded since the last call vs ServerStack.tla, line by line
    (TraceServer.tla; the invariants of ServerStack.tla are evaluated in every state of every trace).  Evidence: drift is
    a note, never a verdict."""
    import json
    from concurrent.futures import ThreadPoolExecutor
    from harness.drivers import server as sv
    recs = sv.take_traces()
    groups = {}
    held = 0
    for r in recs:
        if r.get("held_read"):
            # the driver held the store's reply to the release task back (ReleaseRead / ReleaseAct of ServerStack.tla): the
            # line format of TraceServer.tla has release_fire as one step and send_begin as the lock acquisition -- not validated
            held += 1
            continue
        if r["lines"]:
            groups.setdefault((r["idle_timeout_ms"], tuple(r["backoffs_ms"])), []).append(r)
    if held:
        chk.add(server_traces_with_held_release_read_not_validated=held)
    jobs = sorted(groups.items())

    def one(job):
        (it, bo), rs = job
        f = chk.work / ("trace_server_%d_%d.json" % (it, len(bo)))
        f.write_text(json.dumps({"idle_timeout_ms": it, "backoffs_ms": list(bo), "traces": [{"log": r["lines"]} for r in rs]}))
        return tlc.run(SPECS / "server/TraceServer.tla", SPECS / "server/TraceServer.cfg", workdir=chk.work, deadlock=False,
                       coverage=False, workers=2, env={"TRACE_FILE": str(f)}, jvm_opts=tlc.LIGHT, timeout=900,
                       extra=("-continue",))          # an invariant failing on one trace does not end the validation of the others

    with ThreadPoolExecutor(max_workers=4) as ex:
        results = list(ex.map(one, jobs))
    ok = lines_ok = 0
    drift = []
    for ((it, bo), rs), res in zip(jobs, results):
        chk.record_tlc("TraceServer/idle_timeout=%d" % it, res, count=False)
        if res.violated:
            chk.note("conformance: an invariant of ServerStack.tla (%s) fails in a state of a recorded execution (idle_timeout=%d ms)" % (
                res.violated, it))
        elif res.error:
            chk.note("TraceServer could not be evaluated (idle_timeout=%d ms): %s" % (it, res.error[:200]))
            continue
        seen = {}
        for v in res.prints:
            if isinstance(v, tuple) and len(v) >= 4 and v[0] == "VERDICT":
                seen[v[1]] = (v[2], v[3])
        for i, r in enumerate(rs, 1):
            clause, at = seen.get(i, ("no_verdict", 0))
            if clause == "ok":
                ok += 1
                lines_ok += len(r["lines"])
            else:
                lines_ok += max(0, at - 1)
                drift.append((clause, at, r["lines"][at - 1] if 0 < at <= len(r["lines"]) else None, it))
    for (clause, at, line, it) in drift[:4]:
        chk.note("conformance drift: the recorded server execution is not a behaviour of ServerStack.tla -- %s at line %d "
                 "(idle_timeout=%d ms): %s" % (clause, at, it, json.dumps(line)[:200]))
    chk.add(server_traces_validated=ok, server_lines_matched=lines_ok, server_trace_drift=len(drift))
    # the control loops INSIDE the server (first loop, loops reloaded on a send, loops resumed at a restart) against
    # Engine.tla, with the same trace spec as the engine family (TraceEngine.tla).  The projection of a server trace onto
    # one loop is approximate where the stack races with the loop (a send racing a release, a second handler in the same
    # process): such loops are counted as not aligned, per failing clause, and not reported as drift.
    try:
        from harness.checks import _engine as eg
        ets = sv.take_engine_traces()
        items = [("server:%04d" % (abs(hash(json.dumps(prog, sort_keys=True))) % 10000), prog, (), tr, []) for (prog, tr) in ets if tr]
        if items:
            eg.conform_engine(chk, items, name="srv_engine", prefix="server_engine", quiet=True)
    except Exception as ex:  # noqa: BLE001  (evidence only)
        chk.note("server loops vs Engine.tla not evaluated: %s" % (str(ex)[:200]))
    return ok, drift


def judge(chk, pid, cases, key_of, label_of, nontrivial):
    from harness.checks import _engine as eg
    items = [(label_of(c), {}, (), [c], [[label_of(c)]]) for c in cases]
    # the observers of this family read no engine configuration
    import harness.checks._engine as E
    orig = E.cfg_for_tla
    E.cfg_for_tla = lambda prog: {}
    try:
        eg.standard_run(chk, pid, None, {"case"}, items=items, key_of=key_of, conform=False, nontrivial=nontrivial)
    finally:
        E.cfg_for_tla = orig
    conform_server(chk)
    chk.assumptions[:] = [
        "real WorkflowServer stack assembled by WorkflowServer.__init__ on SqliteWorkflowStore; starlette/uvicorn stubbed "
        "(HTTP layer not exercised); innermost basic_runtime replaced by a recording BasicRuntime subclass",
        "virtual-time event loop; datetime.now of the server runtime modules reads the virtual wall clock"]
