"""C03 -- queued work never stalls and idleness is reported only when truly idle."""
from harness.checks import _engine as eg

LEVEL = "model_checking"
RULE = ("programs = fanout (with delayed retries), collect, wait, routing scenarios; schedules = bounded DFS + seeded walks "
        "with timer advances; non-trivial = an idle announcement occurred or a queue was non-empty at a quiescence point")


def nontrivial(tr):
    return any((r["e"] == "pub" and (r["p"]["k"] == "idle" or (r["p"]["k"] == "unhandled" and r["p"]["idle"]))) or
               (r["e"] == "quiet" and any(v > 0 for v in r["queued"].values())) for r in tr)


def run(chk):
    def keep(r):
        if r["e"] == "pub":
            return r["p"]["k"] in ("idle", "unhandled")
        if r["e"] == "cmd":
            r["cmd"] = [str(x) for x in r["cmd"]]      # one type per sequence for TLC
        return True
    from harness.programs import scenarios as sc
    items = eg.collect(chk, ["fanout", "collect", "wait", "routing"])
    # serialise/resume points: a resumed run starts what was running or queued at the snapshot again, each step up to its
    # worker limit (the quiescence records of the resumed run are judged like those of the first)
    items += eg.collect_resumed(chk, [("fanout(2,3)", sc.fanout(2, 3, None, 0, 0), []),
                                      ("fanout(3,3)", sc.fanout(3, 3, None, 0, 0), []),
                                      ("fanout(2,4,retry)", sc.fanout(2, 4, 2, 1, 1), []),
                                      ("overlap(1,2,2)", sc.overlap(1, 2, 2), [])], paths_q=4)
    eg.standard_run(chk, "C03", None, {"pub", "cmd", "tick", "step_start", "quiet"}, nontrivial=nontrivial, keep=keep,
                    items=items)
