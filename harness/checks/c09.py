"""C09 -- collect_events returns each full set once without losing events."""
from harness.checks import _engine as eg

LEVEL = "model_checking"
RULE = ("programs = collector scenarios (nw 1..3, expected [A,A] / [A,B] / [A,A,B], 3-6 arrivals, retry after a complete "
        "collection) + fanout; schedules = bounded DFS over completion orders + seeded walks, drained at the end; "
        "non-trivial = two collecting invocations overlapped (live>1 at a start of the collecting step) or a collection completed")


def nontrivial(tr):
    return any((r["e"] == "collect_ret" and r["got"] == "list") or
               (r["e"] == "step_start" and r["live"] > 1) for r in tr)


def extra(prog, tr):
    col = {}
    for s, sc in prog["steps"].items():
        for o in sc["body"]:
            if o["op"] == "collect":
                col[s] = list(o["expected"])
    return {"collect": col, "equal": any(o.get("same") for sc in prog["steps"].values() for o in sc["body"] if o["op"] == "send")}


def key_of(clause, label, prog, tr, l):
    if clause == "event_in_two_lists":
        # cause feature: two invocations of the collecting step overlapped, so an event already stored in the
        # buffer was in the snapshot of both
        col = set(extra(prog, tr)["collect"])
        if any(r["e"] == "step_start" and r["step"] in col and r["live"] > 1 for r in tr):
            return "obs:event_in_two_lists:overlapping_invocations_share_buffered_event"
    return "obs:" + clause


def keep(r):
    if r["e"] == "step_end":
        r["failed"] = r["how"].startswith("raise:") and r["how"] != "raise:WaitingForEvent"   # suspending in wait_for_event is not a failure
    return True


def run(chk):
    items = eg.collect(chk, ["collect", "fanout"])
    # three identical votes: a repeated-type expected list filled with equal-valued events
    items += eg.collect(chk, ["collect_equal"], paths_q=10, walks_q=3, paths_t=40, walks_t=10)
    eg.standard_run(chk, "C09", None, {"step_start", "step_end", "collect_ret", "drained"}, key_of=key_of,
                    nontrivial=nontrivial, extra=extra, keep=keep, items=items)
