"""C18 -- events and ticks survive serialisation unchanged (function-table flavour: the oracle is the identity).

1. TLC enumerates the well-formed test vectors of specs/tables/Serde.tla (one state = one SHAPE: class kind, typed
   field kinds, dynamic field kinds, result kind, exception kind, serialisation path, single/double round trip,
   representative index) and checks the abstract writer/reader (Enc/Dec) against the statement: strictly on the
   intended design (both Dev_* constants FALSE) and, on the model of today's code, with the carve-outs KF_StopDyn /
   KF_ExcStr that characterise the two known failure shapes exactly.
2. Every enumerated vector is concretised (importable generated event classes, harness/drivers/_c18_events.py) and
   pushed through the real code: JsonSerializer.serialize/deserialize (bare and inside containers),
   EventEnvelopeWithMetadata / EventEnvelope -> JSON text -> load_event / parse, and every tick class through
   WorkflowTickAdapter.dump_python(mode="json") -> json text -> validate_python.
3. TLC (specs/obs/Obs_C18.tla, extending Serde.tla) compares the canonical texts of every component before and after
   and names every failing clause; conformance to the Enc/Dec prediction is evidence, notes are never verdicts.
"""
from __future__ import annotations

import collections
from concurrent.futures import ThreadPoolExecutor

from harness import tlc
from harness.core import SPECS, Machinery

LEVEL = "model_checking"
RULE = ("vectors = all well-formed shapes (class kind x <=k typed field kinds x <=k dynamic field kinds x result kind x "
        "exception kind, at most k varied features; k=1 quick, k=2 thorough) x 19 serialisation paths (two-feature shapes on "
        "6 of them: one per serialiser family + the exception-carrying ticks) x {double trip, single trip with another "
        "representative} (thorough: three representatives + double trip), enumerated by TLC as the states of Serde.tla; each "
        "concretised with fixed representative values and run through the real serialisers; non-trivial = vector with a "
        "dynamic field, an exception, a non-scalar/nested typed field or result, or a library event class with such fields")

_TLC_FIELDS = ("v", "raised", "cls_before", "cls_after", "typed", "dyn", "dyn_missing", "dyn_extra", "res", "exc", "tick",
               "tick_cls_before", "tick_cls_after", "wire_stable")
_SCALAR_TYPED = {"int", "str", "float_int", "float_frac", "bool", "opt_none", "opt_some", "union", "enum", "str_enum",
                 "datetime_aware", "datetime_naive"}
_SCALAR_UNTYPED = {"na", "none", "int", "str", "float_int", "float_frac", "bool"}
_NONSCALAR_CLASSES = {"step_failed", "timed_out", "wf_failed"}


def _nontrivial(v):
    return bool(v["dyn"] or v["exc"] != "na" or set(v["typed"]) - _SCALAR_TYPED or v["res"] not in _SCALAR_UNTYPED
                or v["cls"] in _NONSCALAR_CLASSES)


def _for_tlc(r):
    out = {k: r[k] for k in _TLC_FIELDS}
    for part in ("typed", "dyn", "res", "tick"):
        out[part] = [{k: c[k] for k in ("name", "kind", "lb", "la", "pyeq", "drift")} for c in r[part]]
    return out


def _describe(r):
    v = r["v"]
    bits = ["class=%s" % v["cls"]]
    for k in ("typed", "dyn"):
        if v[k]:
            bits.append("%s=%s" % (k, "+".join(v[k])))
    for k in ("res", "exc"):
        if v[k] != "na":
            bits.append("%s=%s" % (k, v[k]))
    bits.append("path=%s x%d rep=%d" % (v["path"], v["trips"], v["rep"]))
    return " ".join(bits)


def _detail(r, clause):
    head = clause.split(":")[0]
    if head == "raised":
        return "the round trip raised %s" % r["raised_detail"]
    if head == "class_changed":
        return "class %s came back as %s" % (r["cls_before"], r["cls_after"])
    if head in ("dynamic_field_dropped", "dynamic_field_added"):
        return "dynamic keys missing after the trip: %s; added: %s (event class %s)" % (
            ["d_" + k for k in r["dyn_missing"]], r["dyn_extra"], r["cls_before"])
    if head.startswith("exception_"):
        return "; ".join("%s: %s(%s) came back as %s(%s)" % (e["where"], e["type_before"], e["msg_before"], e["type_after"],
                                                             e["msg_after"]) for e in r["exc"])
    for part in ("typed", "dyn", "res", "tick"):
        for c in r[part]:
            if c["lb"] != c["la"]:
                return "%s %s: %s came back as %s" % (part, c["name"], c["text"][0][:160], c["text"][1][:160])
    return ""


def run(chk):
    from harness.drivers import _obslib
    from harness.drivers import serde as drv

    tier = chk.pick("quick", "thorough")
    # ---- 1. TLC: design variant (strict) and code variant (carve-outs) + enumeration, side by side
    dump = chk.work / "g"
    design_cfg = "tables/MC_Serde_%s.cfg" % chk.pick("design", "design2")

    def _design():
        return tlc.run(SPECS / "tables/MC_Serde.tla", SPECS / design_cfg, workdir=chk.work / "w_design", workers=4,
                       deadlock=False, coverage=False, jvm_opts=_obslib.LONG_JVM)

    def _grid():
        return tlc.run(SPECS / "tables/MC_Serde.tla", SPECS / ("tables/MC_Serde_%s.cfg" % tier), workdir=chk.work / "w_grid",
                       workers=chk.pick(4, 8), deadlock=False, coverage=False, dump=dump, jvm_opts=_obslib.LONG_JVM)

    with ThreadPoolExecutor(2) as ex:
        f_design, f_grid = ex.submit(_design), ex.submit(_grid)
        drv._mods()                                   # import the code under test meanwhile
        res_d, res_g = f_design.result(), f_grid.result()
    chk.record_tlc("Serde/design", res_d)
    if res_d.violated:
        chk.violation("model:design:" + res_d.violated, "the intended design (Dev_* = FALSE) violates %s" % res_d.violated,
                      {"trace": res_d.trace})
    else:
        chk.require_tlc_ok("design", res_d)
    chk.record_tlc("Serde/" + tier, res_g)
    if res_g.violated:
        chk.violation("model:" + res_g.violated, "Serde.tla (code variant, known shapes carved out) violates %s" % res_g.violated,
                      {"trace": res_g.trace})
        return
    chk.require_tlc_ok(tier, res_g)
    vectors = drv.vectors_from_dot(str(dump) + ".dot")
    if len(vectors) != res_g.distinct:
        raise Machinery("state dump has %d vectors, TLC reported %d distinct states" % (len(vectors), res_g.distinct))
    vectors.sort(key=lambda v: (v["path"], v["cls"], v["typed"], v["dyn"], v["res"], v["exc"], v["trips"], v["rep"]))

    # the spec's kind sets and the driver's tables must be the same sets (vacuity / concretisation self-check)
    K = drv._mods()["k"]
    seen = {"typed": set(), "untyped": set(), "exc": set(), "path": set(), "cls": set()}
    for v in vectors:
        seen["typed"].update(v["typed"])
        seen["untyped"].update(v["dyn"])
        seen["untyped"].add(v["res"])
        seen["exc"].add(v["exc"])
        seen["path"].add(v["path"])
        seen["cls"].add(v["cls"])
    seen["untyped"].discard("na")
    seen["exc"].discard("na")
    want = {"typed": set(K.TYPED_KINDS), "untyped": set(K.JSON_KINDS) | set(K.LOSSY_KINDS), "exc": set(K.EXC_KINDS),
            "path": set(drv.EVENT_PATHS + drv.TICK_EVENT_PATHS + drv.TICK_BARE_PATHS),
            "cls": set(drv.GENERATED) | set(drv.FIXED_TYPED) | {"none"}}
    for k in want:
        if seen[k] != want[k]:
            raise Machinery("kinds enumerated by Serde.tla and the driver's tables differ for %s: only in spec %s, only in driver %s"
                            % (k, sorted(seen[k] - want[k]), sorted(want[k] - seen[k])))

    # ---- 2. the real serialisers, 3. TLC judges (batches are judged while the next ones are being run)
    batch = chk.pick(4500, 20000)
    recs, parts, futures = [], [], []

    def _obs(i, part):
        return _obslib.observe(chk, "obs/Obs_C18.tla", "obs/Obs_C18.cfg", {"traces": [_for_tlc(r) for r in part]},
                               libs=("tables",), name="obs_%d" % i, workers=2, jvm=_obslib.LONG_JVM, record=False)

    with ThreadPoolExecutor(3) as ex:
        for b in range(0, len(vectors), batch):
            part = []
            for v in vectors[b:b + batch]:
                try:
                    part.append(drv.evaluate(v))
                except Exception as e:
                    raise Machinery("could not concretise/run vector %r: %s: %s" % (v, type(e).__name__, e))
            recs += part
            parts.append(part)
            futures.append(ex.submit(_obs, len(parts) - 1, part))
        outs = [f.result() for f in futures]
    conf = 0
    drift = collections.Counter()
    notes = collections.Counter()
    by_key = collections.Counter()
    witnesses = {}
    for i, (verdicts, res) in enumerate(outs):
        chk.record_tlc("obs_%d" % i, res, count=False)
        for j, r in enumerate(parts[i], 1):
            vd = verdicts[j]
            failing, cf, nts = vd[2], vd[3], vd[4]
            if cf == "harness:canon":
                raise Machinery("canonical rendering disagrees with Python's == on %s: %r" % (_describe(r), r))
            if cf == "conf":
                conf += 1
            else:
                drift[",".join(sorted(failing)) or "nothing fails (the prediction names a failure)"] += 1
            for n in nts:
                notes[n] += 1
            if (vd[0] == "ok") != (not failing):
                raise Machinery("observer verdict %r inconsistent with failing set %r" % (vd[0], failing))
            for clause in sorted(failing):
                key = "obs:" + clause
                by_key[key] += 1
                if by_key[key] <= 3 or any(k["key"] == key for k in chk.known):
                    if key not in witnesses:
                        witnesses[key] = _describe(r)
                    chk.violation(key, "%s: clause '%s' fails -- %s" % (_describe(r), clause, _detail(r, clause)),
                                  {"vector": r["v"], "wire": r["wire"], "raised": r["raised_detail"], "record": r})
    for k, n in sorted(drift.items()):
        chk.note("conformance drift on %d vectors: the code's failing clauses {%s} differ from Serde.tla's Enc/Dec prediction" % (n, k))
    for k, n in sorted(notes.items()):
        chk.note("%s on %d vectors (not demanded by the statement)" % (k, n))
    chk.add(evaluations=len(recs), round_trips=sum(r["v"]["trips"] for r in recs),
            distinct_nontrivial=sum(1 for v in vectors if _nontrivial(v)), traces_validated_against_impl=conf,
            grid_vectors=len(vectors), generated_event_classes=len({(v["cls"], tuple(v["typed"])) for v in vectors if v["typed"]}),
            failing_by_key=dict(sorted(by_key.items())))
    for r in (recs[len(recs) // 5], recs[len(recs) // 2], recs[-1]):
        chk.sample({"vector": _describe(r), "class": r["cls_before"], "wire": r["wire"][:200], "raised": r["raised"]})
    chk.exhaustive = True
    chk.assumptions += [
        "'equal' is Python's ==, observed through a canonical text of each value (cross-checked against == on every demanded "
        "component); bool/int/float drift that == does not see would be reported as a note, not a violation",
        "payloads are JSON-representable: values of untyped slots (dynamic fields, StopEvent.result) that are not JSON values "
        "(pydantic models, events, enums, datetimes, tuples) come back in their JSON form -- recorded as notes, never demanded; "
        "typed fields of any kind (models, nested events, enums, datetimes, tuples, sets) are demanded",
        "an exception's message is str(exc), its type is type(exc) (as the package's own tests read them); exception classes "
        "that cannot be re-imported (local classes, classes nested in classes) fall back to Exception as documented: only their "
        "message is demanded; __cause__/__traceback__ are not part of the statement",
        "AddWaiter.requirements / has_requirements are documented as not serialised and are left out of the tick comparison "
        "(a difference is reported as a note)",
        "event classes are importable and, on the client-envelope paths, present in the registry handed to parse/load_event; "
        "non-finite floats, non-string dict keys, bytes and lone surrogates are outside the grid (not JSON-representable)",
        "one fixed value table per kind (representatives 0-1 in quick, 0-2 in thorough); the grid bounds shapes, not values",
    ]


def replay(path):
    """./check C18 --replay replays/C18-xxxx.json : run the recorded vector again on the real code and let the observer judge."""
    import json
    import shutil
    import types

    from harness.core import WORK
    from harness.drivers import _obslib
    from harness.drivers import serde as drv

    saved = json.loads(open(path).read())
    v = saved["replay"]["vector"]
    r = drv.evaluate(v)
    work = WORK / "C18_replay"
    shutil.rmtree(work, ignore_errors=True)
    work.mkdir(parents=True)
    fake = types.SimpleNamespace(work=work, record_tlc=lambda *a, **k: None)
    try:
        verdicts, _ = _obslib.observe(fake, "obs/Obs_C18.tla", "obs/Obs_C18.cfg", {"traces": [_for_tlc(r)]}, libs=("tables",),
                                      name="replay", record=False)
    finally:
        shutil.rmtree(work, ignore_errors=True)
    failing = sorted(verdicts[1][2])
    print("vector: %s" % _describe(r))
    print("wire: %s" % r["wire"][:300])
    for c in failing:
        print("FAILS %s -- %s" % (c, _detail(r, c)))
    print("recorded key: %s -> %s" % (saved["key"], "reproduced" if saved["key"] in ["obs:" + c for c in failing] else "NOT reproduced"))
    return 1 if failing else 0
