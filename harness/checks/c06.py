"""C06 -- retry delays follow the wait strategy in documented order."""
from harness.checks import _engine as eg

LEVEL = "model_checking"
RULE = ("programs = always-failing step under wait_chain / wait_exponential / wait_incrementing / wait_fixed with integer "
        "parameters, including NON-MONOTONE strategies (decreasing chains, negative increments) where an index shift "
        "starts a retry earlier than documented; non-trivial = at least two retries with distinct documented delays")


def keep(r):
    if r["e"] == "step_end":
        r["failed"] = r["how"].startswith("raise:")
    return True


def key_of(clause, label, prog, tr, l):
    if clause == "retry_started_early_by_next_index_delay":
        return "obs:retry_started_early:wait_strategy_called_with_one_based_index"
    return "obs:" + clause


def run(chk):
    items = eg.collect(chk, ["waits"], paths_q=4, paths_t=10, walks_q=1, walks_t=5)
    # a retry that waits in the queue of a saturated step before it runs (its retry number travels with the queue entry)
    items += eg.collect(chk, ["waits_queue"], paths_q=40, paths_t=300, walks_q=10, walks_t=60, depth=18)
    # two wake-ups of one run a few milliseconds apart (another step's retry is due just before this step's)
    items += eg.collect(chk, ["waits_close"], paths_q=30, paths_t=200, walks_q=8, walks_t=40, depth=16)
    eg.standard_run(chk, "C06", None, {"step_start", "step_end"}, key_of=key_of, items=items,
                    extra=lambda prog, tr: {"step": prog.get("obs_step", "b")}, keep=keep,
                    nontrivial=lambda tr: sum(1 for r in tr if r["e"] == "step_start" and r["step"] in ("b", "c") and r["retry"] >= 1) >= 2)
