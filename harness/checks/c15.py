"""C15 -- the server's handler record always reflects the run outcome."""
from harness.checks import _server as sv
from harness.drivers import server_cases as scs

LEVEL = "model_checking"
RULE = ("outcomes {result, step failure, failure after retries, timeout, cancel, junk return, retry policy raising inside the "
        "reducer} x transient handler-status write failures 0..len(persistence_backoff); the handler row is read after "
        "the run's task ended and every back-off sleep elapsed; non-trivial = the run ended")


def key_of(clause, label, prog, tr, l):
    r = tr[0]
    if clause == "handler_running_after_run_ended" and r["label"] == "retry_policy_raises":
        return "obs:handler_running_after_run_ended:engine_error_without_terminal_event"
    if clause == "handler_running_after_run_ended" and r.get("aborted_during_terminal_write"):
        return "obs:handler_running_after_run_ended:idle_release_aborts_the_loop_inside_the_status_write_backoff"
    if clause in ("handler_running_after_run_ended", "status_does_not_match_outcome") and r.get("cancel_of_released_run"):
        return "obs:%s:cancel_of_idle_released_run_is_dropped" % clause
    return "obs:" + clause


def run(chk):
    cases = scs.c15_cases(chk.work, quick=chk.quick)
    sv.judge(chk, "C15", cases, key_of, lambda c: "%s/faults=%d/%s" % (c["label"], c["faults"], c["store"]),
             lambda tr: tr[0]["run_ended"])
    sv.design(chk, "HandlerStatus", ["design"], {"ascoded": "Inv_StatusMatchesOutcome"})
    # the whole stack: on the model of the code as it is, the idle release can abort the loop inside its terminal status
    # write (recorded finding); the design variant is checked by C26/C36
    sv.design(chk, "ServerStack", [], {"ascoded_status": "Inv_StatusMatchesOutcome"})
