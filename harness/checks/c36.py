"""C36 -- idle runs are released after the idle timeout and reloaded on demand (in-process stack)."""
from harness.checks import _server as sv
from harness.drivers import server_cases as scs

LEVEL = "model_checking"
RULE = ("histories on the in-process stack: a run waiting for human input left idle for less than / exactly / more than "
        "idle_timeout, then sent its event; two release/reload cycles; concurrent senders; non-trivial = idle lasted "
        "longer than the timeout")


def run(chk):
    cases = [c for c in scs.idle_cases(chk.work, quick=chk.quick)]
    sv.judge(chk, "C36", cases, None, lambda c: "%s/gap=%d" % (c["label"], c["gap_ms"]),
             lambda tr: tr[0]["gap_ms"] > tr[0]["idle_timeout_ms"])
    sv.design(chk, "IdleRelease", ["design_short", "design_long"], {})
    # the whole in-process stack around one run (ServerStack.tla; the same spec every recorded execution above was validated
    # against): all its invariants and action properties on the intended design, the release-only-when-idle property
    # violated by the model of the code as it is (recorded findings)
    sv.design(chk, "ServerStack", [chk.pick("design_quick", "design")], {})
    # the DBOS stack: lifecycle lock (Lifecycle.tla) and DBOSIdleReleaseDecorator (DbosIdleRelease.tla)
    from harness.checks import _dbos_idle
    _dbos_idle.run_c36_part(chk)
