"""C22 -- resource injection honours caching and cycle detection under concurrency.

1. TLC checks Resources.tla (ResourceManager state {resources, _resolving, _resolution_cache,
   _resolution_depth} exactly as coded, step invocations resolving dependency graphs of <=2 (thorough: 3)
   cached/non-cached sync/async factories concurrently, including genuine cycles) exhaustively in two
   variants: Dev_SharedResolutionState=FALSE (intended design: strict invariants) and TRUE (the code as
   it is: the two known failure shapes carved out, everything else strict).
2. Every program TLC enumerated is compiled to a real Workflow (Annotated[..., Resource(...)] step
   parameters, gated async factories) and every interleaving of begin/release commands is executed on
   the real engine under the virtual loop; each program is also run in the "two steps accept the same
   event" shape (one run).  Schedules projected from TLC's state graph are added.
3. Every recorded execution is validated by TLC against TraceResources.tla (each command = one action,
   full manager state compared) and judged by Obs_C22.tla (verdict), a second time with the known
   shapes carved out so that a different violation behind them is still reported.
"""
from __future__ import annotations

import random
import re
from concurrent.futures import ThreadPoolExecutor

from harness import tlc, tracecheck
from harness.core import SPECS, Machinery

LEVEL = "model_checking"
RULE = ("programs = dependency graphs over <=3 resources (cached/non-cached, sync/async factories, incl. genuine "
        "cycles) x step parameter lists, enumerated by TLC; schedules = every interleaving of begin(invocation)/"
        "release(async factory) commands at quiescence points, exhaustive DFS on the real engine pruned on the projected "
        "state, plus the same-event shape and schedules projected from TLC's state graph; non-trivial = two "
        "resolutions overlapped, or the program has a dependency cycle")

LIGHT_JVM = "-XX:TieredStopAtLevel=1 -XX:ParallelGCThreads=2 -XX:CICompilerCount=1 -Xmx3g"
KF = {"obs:no_false_cycle:overlapping_invocations", "obs:fresh_per_invocation:overlapping_invocations"}


def _prog_of(state):
    pr = state["prog"]
    return {"deps": {n: list(v) for n, v in pr["deps"].items()}, "cache": dict(pr["cache"]),
            "asyncf": dict(pr["asyncf"]), "params": {p: list(v) for p, v in pr["params"].items()}}


def _cyclic(prog):
    names = list(prog["deps"])
    reach = {n: set(prog["deps"][n]) for n in names}
    for _ in names:
        for n in names:
            for m in list(reach[n]):
                reach[n] |= reach[m]
    return any(n in reach[n] for n in names)


def _graph_schedules(g, limit):
    lab = re.compile(r'^(Begin|Release)\("(\w+)"\)$')
    out = []
    for path in tlc.covering_paths(g, max_len=30):
        if not path:
            continue
        prog = _prog_of(g.state(path[0][0]))
        sched = []
        for (_, _, label) in path:
            m = lab.match(label)
            if m:
                sched.append([m.group(1).lower(), m.group(2)])
        if sched:
            out.append((prog, sched))
        if len(out) >= limit:
            break
    return out


def _programs2():
    """The program space of MC_Resources!Programs2, enumerated here so that the real engine can be driven while
    TLC is still checking the model; run() verifies that TLC's initial states are exactly these programs."""
    import itertools
    L2 = [["a"], ["b"], ["b", "a"], ["a", "b"]]
    out = []
    for deps in ({"a": [], "b": []}, {"a": [], "b": ["a"]}, {"a": ["b"], "b": ["a"]}, {"a": [], "b": ["b"]}):
        for ca, cb in itertools.product((True, False), repeat=2):
            for asy in ({"a": True, "b": True}, {"a": True, "b": False}, {"a": False, "b": True}):
                for i, j in itertools.combinations_with_replacement(range(4), 2):
                    out.append({"deps": {k: list(v) for k, v in deps.items()}, "cache": {"a": ca, "b": cb},
                                "asyncf": dict(asy), "params": {"p1": list(L2[i]), "p2": list(L2[j])}})
    out.sort(key=repr)
    return out


def _programs3():
    """MC_Resources!Programs3 (see _programs2)."""
    import itertools
    L3 = [["a"], ["b"], ["c"], ["c", "a"], ["a", "c"]]
    shapes = ({"a": [], "b": ["a"], "c": ["b"]}, {"a": [], "b": ["a"], "c": ["b", "a"]},
              {"a": ["c"], "b": ["a"], "c": ["b"]}, {"a": [], "b": ["c"], "c": ["b"]})
    out = []
    for deps in shapes:
        for cache in itertools.product((True, False), repeat=3):
            for asy in ({"a": True, "b": True, "c": True}, {"a": True, "b": False, "c": True}):
                for i, j, k in itertools.combinations_with_replacement(range(5), 3):
                    out.append({"deps": {n: list(v) for n, v in deps.items()}, "cache": dict(zip("abc", cache)),
                                "asyncf": dict(asy), "params": {"p1": list(L3[i]), "p2": list(L3[j]), "p3": list(L3[k])}})
    out.sort(key=repr)
    return out


def _explore(progs, procs):
    from harness.drivers import resources as drv
    traces = []      # (prog, events, same_run)
    anomalies = []
    for prog in progs:
        for tr, an in drv.explore(prog, procs):
            traces.append((prog, tr, False))
            anomalies += an
        for tr, an in drv.explore(prog, procs, same_run=True):
            traces.append((prog, tr, True))
            anomalies += an
        if prog["params"][procs[0]] != prog["params"][procs[-1]]:
            # the engine starts the steps of one event in name order: the other order too (the program space is reduced
            # by the symmetry of the invocations, which a fixed start order breaks)
            for tr, an in drv.explore(prog, procs, same_run="rev"):
                traces.append((prog, tr, "rev"))
                anomalies += an
    return traces, anomalies


def _drive(chk, graph, procs, names, tag, progs, pre):
    from harness.drivers import resources as drv
    traces, anomalies = pre if pre is not None else _explore(progs, procs)
    n_impl = len(traces)
    n_model = 0
    for prog, sched in (_graph_schedules(graph, chk.pick(150, 3000)) if graph is not None else []):
        if prog not in progs:
            continue
        tr, an = drv.run_schedule(prog, procs, sched)
        anomalies += an
        if tr:
            traces.append((prog, tr, False))
            n_model += 1
    if anomalies:
        raise Machinery("harness could not attribute factory calls to invocations: %s" % anomalies[:3])
    # which variant does the current code follow?  replay the witness of the known finding
    wit_prog = {"deps": {n: [] for n in names}, "cache": {n: False for n in names},
                "asyncf": {n: True for n in names}, "params": {p: [names[0]] for p in procs}}
    wit, _ = drv.run_schedule(wit_prog, procs, [["begin", procs[0]], ["begin", procs[1]]])
    dev = wit[-1]["post"]["status"][procs[1]] == "error"

    def batch(sel):
        return {"names": names, "procs": procs, "dev": dev,
                "traces": [{"prog": p, "events": tr} for p, tr, same in traces if sel(same)]}

    with ThreadPoolExecutor(max_workers=2) as ex:
        f1 = ex.submit(tracecheck.observe, chk, "obs/Obs_C22.tla", "obs/Obs_C22.cfg", batch(lambda s: True), "obs_" + tag)
        f3 = ex.submit(tracecheck.conform, chk, "sync/TraceResources.tla", "sync/TraceResources.cfg",
                       batch(lambda s: not s), "trace_" + tag)
        (v1, _), (reached, res) = f1.result(), f3.result()
    if res.violated:
        chk.note("conformance: model invariant %s fails on a step of a real trace (%s)" % (res.violated, tag))
    total = nontriv = matched = 0
    seen = set()
    ci = 0
    for i, (prog, tr, same) in enumerate(traces, 1):
        total += 1
        v = v1[i]        # (clause, l, cause, clause_carved, l_carved, cause_carved)
        for clause, l, cause in {(v[0], v[1], v[2]), (v[3], v[4], v[5])}:
            if clause == "ok":
                continue
            key = "obs:%s:%s" % (clause, cause) if cause != "-" else "obs:" + clause
            post = tr[min(l, len(tr)) - 1]["post"] if l else tr[-1]["post"]
            chk.violation(key, "resources %s, step parameters %s, %s schedule %s: clause '%s' (%s): statuses %s, injected %s, "
                               "objects %s" % ({n: ("cached" if prog["cache"][n] else "fresh") + ("/async" if prog["asyncf"][n] else "")
                                               + ("<-" + ",".join(prog["deps"][n]) if prog["deps"][n] else "") for n in prog["deps"]},
                                              prog["params"], "same-event" if same else "separate-runs",
                                              [e["cmd"] for e in tr[:l]], clause, cause, post["status"], post["inj"],
                                              [(o["name"], o["by"]) for o in post["objs"]]),
                          {"prog": prog, "same_run": same, "schedule": [e["cmd"] for e in tr], "trace": tr[: (l or 0)]})
        if not same:
            ci += 1
            if reached.get(ci, 0) == len(tr):
                matched += 1
            elif not res.violated and len(chk.notes) < 8:
                k = reached.get(ci, 0)
                chk.note("conformance drift (%s): program %s schedule %s matched %d/%d events" % (
                    tag, prog, [e["cmd"] for e in tr], k, len(tr)))
        sig = repr((prog, same, [e["cmd"] for e in tr]))
        if (any(tr[-1]["post"]["overlap"].values()) or _cyclic(prog)) and sig not in seen:
            seen.add(sig)
            nontriv += 1
    mid = traces[len(traces) // 2]
    chk.sample({"prog": mid[0], "same_run": mid[2], "schedule": [e["cmd"] for e in mid[1]],
                "status": mid[1][-1]["post"]["status"], "inj": mid[1][-1]["post"]["inj"]})
    chk.add(impl_explored=n_impl, model_projected=n_model, programs=len(progs))
    chk.add(code_follows_Dev_SharedResolutionState=bool(dev))
    return total, nontriv, matched


def run(chk):
    import os
    os.environ["JAVA_TOOL_OPTIONS"] = LIGHT_JVM
    rng = random.Random(chk.seed)
    chk.exhaustive = True
    jobs = {"quick": (True, False), "design": (False, False)}
    if not chk.quick:
        jobs.update({"thorough": (False, True), "thorough_design": (False, True)})

    def model(name):
        dump, big = jobs[name]
        wd = chk.work / ("tlc_" + name)
        return name, tlc.run(SPECS / "sync/MC_Resources.tla", SPECS / ("sync/MC_Resources_%s.cfg" % name), workdir=wd,
                             deadlock=False, workers=(8 if big else 2), dump=(wd / "g") if dump else None,
                             extra=("-fp", "1"), env=({"JAVA_TOOL_OPTIONS": "-Xmx8g"} if big else {}))

    with ThreadPoolExecutor(max_workers=len(jobs)) as ex:
        futs = [ex.submit(model, n) for n in jobs]
        progs2 = _programs2()
        pre2 = _explore(progs2, ["p1", "p2"])          # the real engine, while TLC checks the models
        progs3 = pre3 = None
        if not chk.quick:
            all3 = _programs3()
            progs3 = rng.sample(all3, 300)
            progs3.sort(key=repr)
            pre3 = _explore(progs3, ["p1", "p2", "p3"])
            chk.exhaustive = False
        results = dict(f.result() for f in futs)
    graphs = {}
    for name, res in results.items():
        chk.record_tlc("Resources/" + name, res)
        if res.violated:
            chk.violation("model:%s:%s" % (name, res.violated),
                          "the Resources model (%s) violates %s (counterexample in replay)" % (name, res.violated),
                          {"cfg": name, "trace": res.trace})
            continue
        chk.require_tlc_ok(name, res)
        z = res.zero_actions(ignore=("Wake",) if "design" not in name else ())
        if z:
            raise Machinery("vacuity: actions never taken in %s: %s" % (name, z))
        if jobs[name][0]:
            g = tlc.load_dot(str(chk.work / ("tlc_" + name) / "g") + ".dot")
            g.edges.sort()
            g.init.sort()
            graphs[name] = g

    total = nontriv = matched = 0
    if "quick" in graphs:
        g = graphs["quick"]
        from_tlc = sorted((_prog_of(g.state(sid)) for sid in g.init), key=repr)
        if from_tlc != progs2:
            raise Machinery("the programs driven on the real engine are not the ones TLC enumerated (%d vs %d)" % (
                len(progs2), len(from_tlc)))
        t, n, m = _drive(chk, g, ["p1", "p2"], ["a", "b"], "2", progs2, pre2)
        total, nontriv, matched = total + t, nontriv + n, matched + m
    if progs3 is not None and results["thorough"].ok:
        m = re.search(r"Finished computing initial states: (\d+) distinct", results["thorough"].stdout)
        if not m or int(m.group(1)) != len(all3):
            raise Machinery("the 3-resource programs driven on the real engine are not the ones TLC enumerated "
                            "(%d here, TLC: %s)" % (len(all3), m.group(1) if m else "?"))
        t, n, m = _drive(chk, None, ["p1", "p2", "p3"], ["a", "b", "c"], "3", progs3, pre3)
        total, nontriv, matched = total + t, nontriv + n, matched + m
    # the error path WITHOUT a cycle: a factory raises on its own, later invocations on the same instance must be served
    from harness.drivers import resources as drv_f
    fcases = drv_f.factory_failure_cases()
    vf, _ = tracecheck.observe(chk, "obs/Obs_C22_fail.tla", "obs/Obs_C22_fail.cfg", {"traces": fcases}, name="obs_fail")
    for i_, c_ in enumerate(fcases, 1):
        if vf[i_][0] != "ok":
            chk.violation("obs:%s" % vf[i_][0], "%s: first invocation %s, later ones %s / %s" % (
                c_["label"], c_["first"], c_["second"], c_["third"]), c_)
    chk.add(factory_failure_cases=len(fcases))
    chk.add(evaluations=total, distinct_nontrivial=nontriv, traces_validated_against_impl=matched)
    chk.assumptions += [
        "every invocation is a run of the same workflow instance (one ResourceManager), plus the one-run shape where "
        "all steps accept the start event; factories and step bodies are harness-owned",
        "ResourceManager internals (_resolving/_resolution_cache/_resolution_depth/resources) are read for the "
        "conformance projection only; verdicts use factory calls, injected objects and run outcomes",
        "_ResourceConfig (JSON-backed) descriptors are not covered; llama_index_instrumentation is the inert shim",
    ]
