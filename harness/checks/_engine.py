"""Shared machinery of the engine-family checks (C01..C12, C31, C35): scenario exploration on the real
engine, reducer conformance (TraceReducer.tla) and observer evaluation (Obs_Cxx.tla) by TLC."""
from __future__ import annotations

import json
import random

from harness import tlc, tracecheck
from harness.core import SPECS, Machinery
from harness.drivers import engine_traces as et
from harness.programs import scenarios as sc
from harness.programs.compile import cfg_for_tla


def collect(chk, families, paths_q=30, paths_t=400, walks_q=8, walks_t=200, depth=16, allow_cancel=False,
            timeout_advance=False, drain=True, max_ext=2, p_cancel=0.0, batch=False, sleep_ms=0):
    """[(label, prog, ext, trace, schedule)] from bounded DFS + seeded random walks on the real engine."""
    items = []
    rng = random.Random(chk.seed)
    for fam in families:
        for (label, prog, ext) in sc.family(fam, quick=chk.quick):
            for (tr, sched) in et.explore(prog, ext_menu=ext, max_depth=depth, max_paths=chk.pick(paths_q, paths_t),
                                          rng=random.Random(rng.random()), allow_cancel=allow_cancel,
                                          timeout_advance=timeout_advance, drain=drain, max_ext=max_ext,
                                          batch=batch, sleep_ms=sleep_ms):
                items.append((label, prog, ext, tr, sched))
            for _ in range(chk.pick(walks_q, walks_t)):
                tr, sched = et.random_walk(prog, random.Random(rng.random()), ext_menu=ext, p_cancel=p_cancel,
                                           batch=batch, sleep_ms=sleep_ms)
                items.append((label, prog, ext, tr, sched))
    return items


def conform_reducer(chk, items, name="reducer"):
    """Real reducer transitions vs Reducer.tla (evidence; drift is a note, never a verdict)."""
    cap = 160 if chk.quick else 1600
    if len(items) > cap:
        rng = random.Random(chk.seed + 7)
        items = rng.sample(items, cap)
    # one TLC run per chunk (a single run over thousands of traces spends its time in the JSON parse of the batch)
    from concurrent.futures import ThreadPoolExecutor
    size = 200
    chunks = [items[i:i + size] for i in range(0, len(items), size)] or [[]]
    batches = [et.reducer_batch([(p, tr) for (_l, p, _e, tr, _s) in ch]) for ch in chunks]

    def one(j):
        return tracecheck.observe(chk, "engine/TraceReducer.tla", "engine/TraceReducer.cfg", batches[j],
                                  name=name if len(chunks) == 1 else "%s_%d" % (name, j), workers=8 if len(chunks) == 1 else 4)
    with ThreadPoolExecutor(max_workers=4) as ex:
        outs = list(ex.map(one, range(len(chunks))))
    verdicts = {}
    for j, (vd, _res) in enumerate(outs):
        for i, v in vd.items():
            verdicts[j * size + i] = v
    batch = {"traces": [t for b in batches for t in b["traces"]]}
    ok = sum(1 for v in verdicts.values() if v[0] == "ok")
    nticks = sum(len(t["ticks"]) for t in batch["traces"])
    drift = [(i, v) for i, v in verdicts.items() if v[0] != "ok"]
    for i, v in drift[:5]:
        chk.note("conformance drift: real reducer differs from Reducer.tla in %s at tick %s of %s (schedule %s)" % (
            v[0], v[1], items[i - 1][0], items[i - 1][4][:12]))
    chk.add(traces_validated_against_impl=ok, reducer_transitions_checked=nticks, reducer_drift=len(drift))
    return ok, drift


def collect_resumed(chk, progs, paths_q=6, paths_t=40, depth=8, ext_before=0):
    """Serialise/resume points: each program is run along explored schedules (and their first halves), its context is
    serialised through JSON at the end of the schedule and resumed on the same workflow object (run 2 of the trace), then
    driven to the end with the program's external inputs.  progs: [(label, prog, ext_menu)] -> items."""
    rng = random.Random(chk.seed + 3)
    out = []
    for (label, prog, ext) in progs:
        paths = et.explore(prog, ext_menu=ext if ext_before else (), max_depth=depth, max_paths=chk.pick(paths_q, paths_t),
                           rng=random.Random(rng.random()), timeout_advance=False, drain=False, max_ext=ext_before)
        seen = set()
        for (_tr, sched) in paths:
            for cut in sorted({len(sched), max(1, len(sched) // 2)}):
                key = repr(sched[:cut])
                if key in seen:
                    continue
                seen.add(key)
                tr = et.replay_then_resume(prog, sched[:cut], ext_menu=ext)
                if any(r["e"] == "outcome" and r.get("run") == 1 for r in tr):
                    continue               # the run had already ended at the snapshot: nothing to resume (run(ctx) starts afresh)
                out.append((label + "+resume", prog, ext, tr, sched[:cut]))
    return out


def _at(sg, r):
    """Clock value (the adapter's clock, ms) at which the line was recorded, or -1 when the segment has no base yet."""
    return -1 if sg["base"] is None or "t" not in r else int(sg["base"] + r["t"])


def engine_lines(tr, free_uids=False):
    """The lines of a recorded execution that TraceEngine.tla consumes: one segment per run of the trace
    (a resumed run = Context.from_dict + workflow.run(ctx): it starts from the recorded serialised state).
    -> [{"now0", "resumed", "init", "next0", "log"}]"""
    segs = {}
    order = []
    nsend = 0
    for r in tr:
        run = r.get("run", 1)
        sg = segs.get(run)
        if sg is None:
            sg = segs[run] = {"now0": None, "resumed": run > 1, "init": {}, "next0": nsend, "log": [], "done": False, "bad": False,
                              "base": None}
            order.append(run)
        e = r["e"]
        if e == "cmd" and r["cmd"][0] == "send":
            nsend += 1
        if sg["done"]:
            continue
        out = sg["log"]
        if e == "run_init":
            sg["init"] = r["state"]
            if r.get("resumed"):
                sg["resumed"] = True           # a loop inside the server started from a rebuilt context (reload / restart)
            if sg["now0"] is None:
                sg["now0"] = r["now"]
                sg["base"] = r["now"] - r["t"]
        elif e == "tick":
            if sg["now0"] is None:
                sg["now0"] = r["now"]
                sg["base"] = r["now"] - r["t"]
            if "state" not in r or "wake_abs" not in r:
                sg["bad"] = True
                continue
            out.append({"e": "tick", "tick": r["tick"], "now": r["now"], "state": r["state"], "pubs": r["pubs"],
                        "wake_abs": r["wake_abs"]})
        elif e == "step_end" and r["how"] != "cancelled":
            out.append({"e": "end", "step": r["step"], "uid": r["uid"], "wid": r.get("wid", -1), "at": _at(sg, r)})
        elif e == "wait":
            out.append({"e": "wait", "running": r["running"], "pending": r["pending"], "timeout_ms": r["timeout_ms"],
                        "done": r["done"], "at": _at(sg, r)})
        elif e == "cmd":
            c = list(r["cmd"])
            if c[0] == "send":
                c = ["send", c[1], c[2], c[3] or "*", int(c[4])]
            elif c[0] == "advance":
                # the driver's target counts from the start of the system; the trace spec's from the start of this run
                off = int(sg["base"] - sg["now0"]) if sg["base"] is not None and sg["now0"] is not None else 0
                c = ["advance", int(c[1]) + off]
            elif c[0] == "sleep":
                c = ["sleep", int(c[1])]
            elif c[0] == "release_freeze":
                c = ["release_freeze", int(c[5])]
            else:
                c = [c[0]]
            out.append({"e": "cmd", "cmd": c, "at": _at(sg, r) if c[0] in ("send", "cancel") else -1})
        elif e == "outcome":
            kind = {"completed": "result"}.get(r["kind"], r["kind"])
            out.append({"e": "outcome", "kind": kind})
            sg["done"] = True
    res = []
    for run in order:
        sg = segs[run]
        if sg["bad"] or not sg["log"] or sg["now0"] is None or (sg["resumed"] and not sg["init"]):
            continue
        if sg["resumed"] and not sg["init"].get("running", True):
            continue        # "resumed" from the context of a run that had ended: run(ctx) starts a new run, nothing is resumed
        for ln in sg["log"]:
            ln.setdefault("at", -1)
        res.append(dict({k: sg[k] for k in ("now0", "resumed", "init", "next0", "log")}, free_uids=bool(free_uids)))
    return res


def conform_engine(chk, items, name="engine", prefix="engine", quiet=False):
    """Recorded executions vs Engine.tla, line by line (TraceEngine.tla; evidence, drift is a note).
    One generated module per scenario program (Cfg/Prog are constants of Engine.tla)."""
    from concurrent.futures import ThreadPoolExecutor
    groups = {}
    for (label, prog, ext, tr, sched) in items:
        groups.setdefault(label, (prog, []))[1].append((tr, sched))
    cap = 30 if chk.quick else 400
    rng = random.Random(chk.seed + 11)
    jobs = []
    for gi, (label, (prog, trs)) in enumerate(sorted(groups.items())):
        try:
            d, dev, cfg = mc_module(chk, "te%d" % gi, prog, base="TraceEngine")
        except AssertionError:
            continue                     # program shape the design model does not render (documented in mc_module)
        if len(trs) > cap:
            trs = rng.sample(trs, cap)
        traces = []
        for (tr, sched) in trs:
            for seg in engine_lines(tr, free_uids=label.startswith("server:")):
                traces.append((seg, sched))
        if traces:
            jobs.append((gi, label, d, dev, traces))

    def one(job):
        gi, label, d, dev, traces = job
        B = lambda b: "TRUE" if b else "FALSE"
        lines = ["CONSTANTS", "  Cfg <- MC_Cfg", "  Prog <- MC_Prog", "  ExtMenu <- MC_ExtMenu", "  MaxExt = 99",
                 "  MaxCancel = 99", "  TimeoutMs <- MC_TimeoutMs", "  WallEpoch = 0",
                 "  Dev_MatchDoneWaiters = " + B(dev["match_done_waiters"]), "  Dev_WaitIndexOneBased = " + B(dev["wait_index_one_based"]),
                 "  Dev_NoHandlersUnvalidated = " + B(dev["no_handlers_unvalidated"]), "  Dev_ClockMix = " + B(dev["clock_mix"]),
                 "  Dev_RepingResolvedWaiters = " + B(dev.get("reping_resolved", False)),
                 "  MaxResume = 0", "  TrackLog = FALSE", "INIT TraceInit", "NEXT TraceNext"]
        (d / ("MC_te%d.cfg" % gi)).write_text("\n".join(lines) + "\n")
        f = d / "traces.json"
        f.write_text(json.dumps({"traces": [t for (t, _s) in traces]}))
        res = tlc.run(d / ("MC_te%d.tla" % gi), d / ("MC_te%d.cfg" % gi), workdir=chk.work, deadlock=False, coverage=False,
                      workers=1, timeout=900, env={"TRACE_FILE": str(f)}, jvm_opts=tlc.LIGHT)
        return res

    with ThreadPoolExecutor(max_workers=8) as ex:
        results = list(ex.map(one, jobs))
    ok = lines_ok = unsupported = resumed_ok = 0
    drift = []
    for (gi, label, d, dev, traces), res in zip(jobs, results):
        if res.error or res.violated:
            chk.note("TraceEngine could not be evaluated on %s: %s" % (label, (res.error or res.violated)[:200]))
            continue
        chk.record_tlc("TraceEngine/" + label, res, count=False)
        seen = {}
        for v in res.prints:
            if isinstance(v, tuple) and len(v) >= 4 and v[0] == "VERDICT":
                seen[v[1]] = (v[2], v[3])
        for i, (t, sched) in enumerate(traces, 1):
            clause, at = seen.get(i, ("no_verdict", 0))
            if clause == "ok":
                ok += 1
                resumed_ok += 1 if t.get("resumed") else 0
                lines_ok += len(t["log"])
            elif clause.startswith("unsupported:"):
                unsupported += 1
                lines_ok += at - 1
            else:
                lines_ok += max(0, at - 1)
                drift.append((label, clause, at, t["log"][at - 1] if 0 < at <= len(t["log"]) else None, sched))
    for (label, clause, at, line, sched) in ([] if quiet else drift[:5]):
        chk.note("conformance drift: the recorded execution is not a behaviour of Engine.tla -- %s at line %d of %s: %s (schedule %s)" % (
            clause, at, label, json.dumps(line)[:300], sched_str(sched, 12)))
    if prefix != "engine":
        hist = {}
        for d_ in drift:
            hist[d_[1]] = hist.get(d_[1], 0) + 1
        chk.add(**{prefix + "_loops_validated": ok, prefix + "_lines_matched": lines_ok, prefix + "_loops_not_aligned": len(drift),
                   prefix + "_resumed_loops_validated": resumed_ok})
        if hist:
            chk.cov[prefix + "_not_aligned_by_clause"] = hist
        return ok, drift
    chk.add(engine_resumed_runs_validated=resumed_ok)
    chk.add(engine_traces_validated=ok, engine_lines_matched=lines_ok, engine_trace_drift=len(drift),
            engine_traces_with_unsupported_driver_action=unsupported)
    return ok, drift


def observe(chk, obs, items, kinds, extra=None, name=None, keep=None, tolerate=None):
    import copy
    """Evaluate specs/obs/Obs_<obs>.tla on the recorded logs restricted to the record kinds it reads."""
    traces = []
    for (label, prog, ext, tr, sched) in items:
        log = [r for r in (copy.deepcopy(x) for x in tr if x["e"] in kinds) if (keep is None or keep(r))]
        d = {"cfg": cfg_for_tla(prog), "log": log}
        if extra:
            d.update(extra(prog, tr))
        traces.append(d)
    batch = {"traces": traces}
    if tolerate:
        batch["tolerate"] = sorted(tolerate)
    verdicts, res = tracecheck.observe(chk, "obs/Obs_%s.tla" % obs, "obs/Obs_%s.cfg" % obs, batch,
                                       name=name or ("obs_" + obs), workers=6, chunk=True)
    return verdicts


def sched_str(sched, n=40):
    return [list(c) for c in sched[:n]]


# ------------------------------------------------------------------ design-level model checking (Engine.tla)

def _tla_op(op):
    from harness.tlaval import to_tla
    o = op["op"]
    d = {"op": o, "only": op.get("only_ty") or "*"}
    if o == "send":
        d.update(ty=op["ty"], n=int(op.get("n", 1)), target=op.get("target") or "*", same=bool(op.get("same")))
    elif o == "collect":
        d.update(expected=list(op["expected"]), buf=op.get("buf") or "default")
    elif o == "wait":
        d.update(ty=op["ty"], wid=op.get("wid") or "w", timeout_ms=-1 if op.get("timeout") is None else int(op["timeout"] * 1000),
                 reqs={k: str(v) for k, v in (op.get("reqs") or {}).items()}, wev=bool(op.get("wev")),
                 on_timeout=op.get("on_timeout") or "raise")
    elif o == "fail":
        from harness.programs.compile import EXC
        d.update(until=int(op.get("until", 1 << 20)), exc=EXC[op.get("exc", "ValueError")].__name__)
    elif o in ("ret", "publish"):
        d.update(ty=op["ty"])
    elif o == "stop":
        d.update(result=op.get("result") or "")
    return d


def mc_module(chk, name, prog, ext_menu=(), max_ext=1, max_cancel=0, dev=None, wall_epoch=99000000, base="EngineProps"):
    """Generate MC_<name>.tla/.cfg in chk.work from the same program dict the real engine runs."""
    import shutil
    from harness.tlaval import to_tla
    cfg = cfg_for_tla(prog)
    P = {}
    for s, sc_ in prog["steps"].items():
        assert not any(o.get("wid") == "per_input" for o in sc_["body"]), "per-input waiter ids / requirements are not modelled"
        ops = [_tla_op(o) for o in sc_["body"]]
        gi = next((i for i, o in enumerate(ops) if o["op"] == "gate"), len(ops))
        pre, body = ops[:gi], ops[gi:]
        assert all(o["op"] in ("send", "publish") for o in pre), "only sends may precede the first gate"
        assert not any(o.get("cont") for o in sc_["body"]), "a collect that goes on when its set is incomplete is not modelled"
        for i, o in enumerate(body):
            if o["op"] == "send":
                assert not any(x["op"] in ("fail", "wait", "collect") for x in body[:i]), \
                    "a send after an op that may end the body early is not modelled"
        P[s] = {"pre": pre, "body": body}
    # the code as it is today: the fixed defects are off, the recorded ones (known findings) on
    dev = dict({"match_done_waiters": False, "wait_index_one_based": True, "no_handlers_unvalidated": False,
                "clock_mix": False}, **(dev or {}))
    d = chk.work / ("mc_" + name)
    d.mkdir(parents=True, exist_ok=True)
    for f in ("Reducer.tla", "Engine.tla", "EngineProps.tla", "TraceEngine.tla"):
        shutil.copy(SPECS / "engine" / f, d / f)
    menu = "{" + ", ".join(to_tla({"ty": t.rstrip("1"), "target": tg or "*", "k": 1 if t.endswith("1") else 0})
                           for (t, tg) in ext_menu) + "}"
    mod = """---- MODULE MC_%s ----
EXTENDS @BASE@
MC_Cfg == %s
MC_Prog == %s
MC_ExtMenu == %s
MC_TimeoutMs == %d
====
""".replace("@BASE@", base) % (name, to_tla(cfg), to_tla(P), menu, cfg["timeout_ms"])
    (d / ("MC_%s.tla" % name)).write_text(mod)
    return d, dev, cfg


def mc_run(chk, name, prog, invariants, properties=(), ext_menu=(), max_ext=1, max_cancel=0, dev=None,
           expect_violation=None, constraint="Bound", timeout=1200, track_log=False, fair=False, max_resume=0):
    """TLC exhaustive check of Engine.tla on one scenario program."""
    d, dev, cfg = mc_module(chk, name, prog, ext_menu, max_ext, max_cancel, dev)
    B = lambda b: "TRUE" if b else "FALSE"
    lines = ["CONSTANTS", "  Cfg <- MC_Cfg", "  Prog <- MC_Prog", "  ExtMenu <- MC_ExtMenu",
             "  MaxExt = %d" % max_ext, "  MaxCancel = %d" % max_cancel,
             "  TimeoutMs <- MC_TimeoutMs", "  WallEpoch = 99000000",
             "  Dev_MatchDoneWaiters = " + B(dev["match_done_waiters"]),
             "  Dev_WaitIndexOneBased = " + B(dev["wait_index_one_based"]),
             "  Dev_NoHandlersUnvalidated = " + B(dev["no_handlers_unvalidated"]),
             "  Dev_RepingResolvedWaiters = " + B(dev.get("reping_resolved", False)),
             "  Dev_ClockMix = " + B(dev["clock_mix"]),
             "  MaxResume = %d" % max_resume,
             "  TrackLog = " + B(track_log),
             ] + (["SPECIFICATION FairSpec"] if fair else ["INIT Init", "NEXT Next", "CONSTRAINT " + constraint])
    lines += ["INVARIANT " + i for i in invariants]
    lines += ["PROPERTY " + p for p in properties]
    (d / ("MC_%s.cfg" % name)).write_text("\n".join(lines) + "\n")
    res = tlc.run(d / ("MC_%s.tla" % name), d / ("MC_%s.cfg" % name), workdir=chk.work, deadlock=False, timeout=timeout,
                  coverage=False, workers=6)
    chk.record_tlc("Engine/" + name, res)
    if expect_violation:
        if res.violated != expect_violation:
            chk.note("model %s: expected the as-coded model to violate %s, TLC says violated=%s error=%s" % (
                name, expect_violation, res.violated, res.error))
        return res
    if res.violated:
        chk.violation("model:%s:%s" % (name, res.violated),
                      "Engine.tla (%s) violates %s" % (name, res.violated), {"trace": res.trace[-6:]})
    else:
        chk.require_tlc_ok(name, res)
    return res


BASE_INV = ["TypeOK", "Inv_C01", "Inv_C02", "Inv_C04", "Inv_C35", "Inv_C08"]


def mc_plans(chk, pid):
    """Design-level exhaustive checks of the property's invariant (plus the always-on ones) on the scenario
    programs where its mechanism engages.  Programs are the same dicts the real engine runs."""
    q = chk.quick
    plans = {
        "C12": [("resumable", sc.resumable(2, 2, 3, 1), ["Inv_C12c"], [], {}),
                ("waiter", sc.resumable_wait(), ["Inv_C12c"], [], {"ext_menu": [("Resp1", None), ("Resp", None)], "max_ext": 2}),
                # the PauseResume action of Engine.tla: the context is serialised and resumed at any quiescence point
                ("pause_resume", sc.resumable(2, 2, 3, 1) if q else sc.resumable(2, 3, 3, 1), ["Inv_C12c", "Inv_C03a"],
                 ["Act_C12_WorkKept", "Act_C12_QueuedAttemptsKept"], {"max_resume": 1, "replay": True}),
                ("pause_resume_waiter", sc.resumable_wait(), ["Inv_C12c", "Inv_C03a", "Inv_C10"],
                 ["Act_C12_WorkKept", "Act_C12_NoDoubleStart"],
                 {"ext_menu": [("Resp1", None), ("Resp", None)], "max_ext": 2, "max_resume": 1, "replay": True}),
                # the code before the /repo fix (an answered waiter's step was pinged as well): TLC must refute it
                ("pause_resume_waiter_reping", sc.resumable_wait(), [], ["Act_C12_NoDoubleStart"],
                 {"ext_menu": [("Resp1", None), ("Resp", None)], "max_ext": 2, "max_resume": 1, "dev": {"reping_resolved": True},
                  "expect_violation": "Act_C12_NoDoubleStart"}),
                ("pause_resume_collect", sc.resumable(1, 3, 2, 0, 0, result="collected"), ["Inv_C12c", "Inv_C09"],
                 ["Act_C12_WorkKept"], {"max_resume": 2}),
                # strict forms the code does not meet today (recorded findings of C12): TLC must refute them
                ("pause_resume_timers", sc.resumable(2, 2, 3, 1, 2), [], ["Act_C12_TimersKept"],
                 {"max_resume": 1, "expect_violation": "Act_C12_TimersKept"}),
                ("pause_resume_running_attempts", sc.resumable(2, 2, 3, 2), [], ["Act_C12_RunningAttemptsKept"],
                 {"max_resume": 1, "expect_violation": "Act_C12_RunningAttemptsKept"})],
        "C31": [("fanout_timeout", sc.fanout(2, 2, 2, 5, 1, timeout=8) if q else sc.fanout(2, 3, 2, 5, 1, timeout=8), ["Inv_C31", "Inv_C04"], [], {"max_cancel": 1}),
                ("pipeline", sc.pipeline(retry_max=2, delay=3, fail_until=1, timeout=5), ["Inv_C31", "Inv_C04"], [], {"max_cancel": 1}),
                # cancel_run leaves a context that resumes where it stopped (PauseResume from the cancelled state)
                ("cancel_resume", sc.fanout(2, 2, None, 0, 0, timeout=8), ["Inv_C31", "Inv_C04", "Inv_C03a"], ["Act_C12_WorkKept"],
                 {"max_cancel": 1, "max_resume": 1, "replay": True}),
                ("cancel_resume_waiter", sc.waiter(None, {"k": 1}), ["Inv_C31", "Inv_C04", "Inv_C10"], ["Act_C12_WorkKept"],
                 {"max_cancel": 1, "max_resume": 1, "ext_menu": [("Resp1", None)], "max_ext": 1, "replay": True})],
        "C02": [("overlap", sc.overlap(1, 1, 2), ["Inv_C02"], [], {"ext_menu": [("A", None), ("D", None)], "max_ext": 1, "replay": True}),
                ("targeted", sc.targeted(2), ["Inv_C02"], [], {"ext_menu": [("A", "c"), ("D", None)], "max_ext": 1, "replay": True}),
                ("wait_accept", sc.wait_accept(), ["Inv_C02"], [], {"ext_menu": [("Resp", None)], "max_ext": 2}),
                ("overlap_retry", sc.overlap_retry(1, 1, 2), ["Inv_C02"], [], {"replay": True}),
                # across a PauseResume: the re-ping of a requirement waiter goes to its step alone
                ("shared_input_resume", sc.waiter_shared_input(), ["Inv_C02"], ["Act_C12_WorkKept"],
                 {"ext_menu": [("Resp1", None)], "max_ext": 1, "max_resume": 1, "replay": True})],
        "C05": [("attempts", sc.pipeline(retry_max=2, delay=2, fail_until=99), ["Inv_C06"], [], {}),
                ("stop_delay", sc.pipeline(retry_max=None, stop_delay=3, delay=2, fail_until=99), [], [], {})],
        "C06": [("chain_asis", sc.pipeline(retry_max=4, wait=["chain", [5, 1]], fail_until=99), ["Inv_C06"], [],
                 {"expect_violation": "Inv_C06"}),
                ("chain_design", sc.pipeline(retry_max=4, wait=["chain", [5, 1]], fail_until=99), ["Inv_C06"], [],
                 {"dev": {"wait_index_one_based": False}}),
                ("incr_design", sc.pipeline(retry_max=4, wait=["incr", 6, -2, 100], fail_until=99), ["Inv_C06"], [],
                 {"dev": {"wait_index_one_based": False}})],
        "C08": [("scoped", sc.handlers("scoped", 2, reenter=True), ["Inv_C08"], [], {"replay": True}),
                ("both", sc.handlers("both", 1), ["Inv_C08"], [], {}),
                ("wild_fails", sc.handlers("wildcard", 1, handler_fails=True), ["Inv_C08"], [], {})],
        "C09": [("collect", sc.collector(2, ("A", "A"), 3), ["Inv_C09"], [], {"expect_violation": "Inv_C09"}),
                ("collect_nw1", sc.collector(1, ("A", "A"), 4) if q else sc.collector(1, ("A", "A", "B"), 6), ["Inv_C09"], [], {"replay": True})],
        "C10": [("waiter_defect_variant", sc.waiter2(7), ["Inv_C10", "Inv_C10_Timeout", "Inv_C10_WaiterEvent"], [],
                 {"ext_menu": [("Resp", None)], "max_ext": 2, "expect_violation": "Inv_C10_WaiterEvent",
                  "dev": {"match_done_waiters": True}}),
                ("waiter2", sc.waiter2(7), ["Inv_C10", "Inv_C10_Timeout", "Inv_C10_WaiterEvent"], [],
                 {"ext_menu": [("Resp", None)], "max_ext": 3, "replay": True}),
                ("waiter_reqs", sc.waiter(None, {"k": 1}), ["Inv_C10", "Inv_C10_Timeout"], [],
                 {"ext_menu": [("Resp", None), ("Resp1", None)], "max_ext": 2, "dev": {"match_done_waiters": False}}),
                ("waiter_reqs_resume", sc.waiter(None, {"k": 1}), ["Inv_C10", "Inv_C10_Timeout"], ["Act_C12_WorkKept"],
                 {"ext_menu": [("Resp", None), ("Resp1", None)], "max_ext": 2, "max_resume": 1, "replay": True})],
        "C03": [("fanout_delay", sc.fanout(2, 2, 2, 5, 1) if q else sc.fanout(2, 3, 2, 5, 1), ["Inv_C03a"], ["Act_C03b_AsCoded"], {}),
                ("fanout_delay_strict", sc.fanout(2, 2, 2, 5, 1), ["Inv_C03a"], ["Act_C03b"], {"expect_violation": "Act_C03b"}),
                ("fanout_nodelay", sc.fanout(1, 3, None, 0, 0), ["Inv_C03a"], ["Act_C03b_AsCoded"], {"replay": True}),
                ("liveness", sc.fanout(2, 2, 2, 5, 1, timeout=None), ["Inv_C03a"], ["Live_Progress"], {"fair": True}),
                ("liveness_wait", sc.waiter(5), ["Inv_C03a"], ["Live_Progress"], {"fair": True, "ext_menu": [("Resp", None)], "max_ext": 1}),
                # a resumed run starts what the snapshot held, each step up to its worker limit
                ("fanout_resume", sc.fanout(2, 3, None, 0, 0) if q else sc.fanout(3, 4, None, 0, 0), ["Inv_C03a"],
                 ["Act_C03b_AsCoded", "Act_C12_WorkKept"], {"max_resume": 1, "replay": True})],
        "C04": [("fanout", sc.fanout(2, 3, 2, 0, 1, timeout=20) if q else sc.fanout(2, 4, 2, 5, 1, timeout=20), ["Inv_C04", "Inv_C31"], [], {"max_cancel": 1}),
                ("double_stop", sc.double_stop(2), ["Inv_C04", "Inv_C31"], [], {"max_cancel": 1, "replay": True})],
        "C35": [("fanout", sc.fanout(2, 3, 2, 0, 1) if q else sc.fanout(2, 4, 2, 5, 1), ["Inv_C35"], [], {}),
                ("waiter", sc.waiter(5), ["Inv_C35"], [], {"ext_menu": [("Resp", None)], "max_ext": 2, "replay": True}),
                ("fanout_resume", sc.fanout(2, 2, 2, 0, 1), ["Inv_C35"], [], {"max_resume": 1})],
        "C11": [("fanout", sc.fanout(2, 2, 2, 0, 1) if q else sc.fanout(2, 3, 2, 5, 1), ["Inv_C11"], [], {"track_log": True}),
                ("waiter", sc.waiter(5), ["Inv_C11"], [], {"ext_menu": [("Resp", None)], "max_ext": 2, "track_log": True})],
        "C01": [("fanout", sc.fanout(2, 3, 2, 0, 1) if q else sc.fanout(2, 4, 2, 5, 1), ["Inv_C01", "Inv_C03a"], [], {"replay": q}),
                ("fanout_small", sc.fanout(2, 2, 2, 0, 1), ["Inv_C01"], [], {"replay": True}),
                # (no replay: the driver cannot tell two gates of equal-valued events apart)
                ("fanout_equal_events", sc.fanout_dup(2, 3), ["Inv_C01"], [], {}),
                ("collect", sc.collector(2, ("A", "A"), 3), ["Inv_C01"], [], {})],
    }
    return plans.get(pid, [])


def model_check(chk, pid):
    for (name, prog, inv, props, kw) in mc_plans(chk, pid):
        mc_run(chk, "%s_%s" % (pid, name), prog, list(dict.fromkeys(BASE_INV + inv)), props,
               **{k: v for k, v in kw.items() if k != "replay"})


def standard_run(chk, pid, families, kinds, key_of=None, nontrivial=None, extra=None, describe=None, collect_kw=None,
                 items=None, keep=None, conform=True):
    """collect real traces -> reducer conformance -> observer verdicts -> findings -> design-level MC."""
    from concurrent.futures import ThreadPoolExecutor
    if items is None:
        items = collect(chk, families, **(collect_kw or {}))
    # the TLC invocations are independent: run them side by side (each pays ~10 s of JVM/JIT warm-up)
    pool = ThreadPoolExecutor(max_workers=6)
    f_conf = pool.submit(conform_reducer, chk, items) if conform else None
    f_eng = pool.submit(conform_engine, chk, items) if conform else None
    f_obs = pool.submit(observe, chk, pid, items, kinds, extra, None, keep)
    plans = mc_plans(chk, pid)
    f_mc = [pool.submit(mc_run, chk, "%s_%s" % (pid, name), prog, list(dict.fromkeys(BASE_INV + inv)), props,
                        **{k: v for k, v in kw.items() if k != "replay"})
            for (name, prog, inv, props, kw) in plans]
    # spec -> code: behaviours of Engine.tla (edge-covering paths of TLC's state graph) replayed on the real engine
    f_mc += [pool.submit(replay_model, chk, "%s_%s" % (pid, name), prog, kw.get("ext_menu", ()), kw.get("max_ext", 1),
                         kw.get("max_cancel", 0), chk.pick(40, 400), 60, kw.get("max_resume", 0))
             for (name, prog, inv, props, kw) in plans if kw.get("replay")]
    verdicts = f_obs.result()
    if f_conf:
        f_conf.result()
    if f_eng:
        f_eng.result()
    seen = set()
    clauses = {}
    known_keys = {k["key"] for k in chk.known}

    def report(sub_items, vd):
        again, tol = [], set()
        for i, (label, prog, ext, tr, sched) in enumerate(sub_items, 1):
            clause, l = vd[i][0], vd[i][1]
            if clause != "ok":
                clauses[clause] = clauses.get(clause, 0) + 1
                key = key_of(clause, label, prog, tr, l) if key_of else "obs:" + clause
                chk.violation(key, (describe(clause, label) if describe else
                                    "%s: clause '%s' fails in scenario %s" % (pid, clause, label)),
                              {"scenario": label, "program": prog, "schedule": sched_str(sched), "clause": clause,
                               "at_record": l})
                if key in known_keys:
                    again.append((label, prog, ext, tr, sched))
                    tol.add(clause)
        return again, tol

    again, tol = report(items, verdicts)
    tolerated = set()
    rounds = 0
    while again and rounds < 4:
        # known finding seen: judge the same traces again with that clause switched off, so that the rest of the
        # property stays checked in its presence
        tolerated |= tol
        vd2 = observe(chk, pid, again, kinds, extra, "obs_%s_pass%d" % (pid, rounds + 2), keep, tolerated)
        again, tol = report(again, vd2)
        rounds += 1
    if tolerated:
        chk.cov["clauses_rechecked_without"] = sorted(tolerated)
    for (label, prog, ext, tr, sched) in items:
        if nontrivial is None or nontrivial(tr):
            seen.add(label + repr(sched))
    chk.add(evaluations=len(items), distinct_nontrivial=len(seen))
    if not conform and "traces_validated_against_impl" not in chk.cov:
        chk.add(traces_validated_against_impl=len(items))       # recorded executions judged by the TLC observer
    if clauses:
        chk.cov["failing_clauses"] = clauses
    mid = items[len(items) // 2]
    chk.sample({"scenario": mid[0], "schedule": sched_str(mid[4], 14)})
    chk.sample({"scenario": items[0][0], "schedule": sched_str(items[0][4], 14)})
    for f in f_mc:
        f.result()
    pool.shutdown()
    chk.assumptions += [
        "inert llama_index_instrumentation shim; virtual-time asyncio loop (asyncio's own callback order); "
        "observation through a Runtime subclass returning a recording InternalRunAdapter and harness-owned step bodies",
        "environment actions are issued at quiescence points of the event loop; async steps only (no executor threads)"]
    return items, verdicts


# ------------------------------------------------------------------ spec -> code: replay TLC behaviours of Engine.tla
import threading as _threading
_REAL_ENGINE_LOCK = _threading.Lock()

def _norm(x):
    """Normalise TLA+ values (tlaval) and JSON projections to one comparable shape; empty seq/function/record are equal."""
    if isinstance(x, dict):
        if not x:
            return "<empty>"
        return {str(k): _norm(v) for k, v in x.items()}
    if isinstance(x, (list, tuple)):
        if len(x) == 0:
            return "<empty>"
        return [_norm(v) for v in x]
    if isinstance(x, (set, frozenset)):
        return sorted((_norm(v) for v in x), key=repr) or "<empty>"
    return str(x) if not isinstance(x, (int, bool)) else x


def _unhash(x):
    """tlaval makes set elements hashable (records -> sorted tuples of pairs): turn them back into dicts."""
    if isinstance(x, tuple) and x and all(isinstance(i, tuple) and len(i) == 2 and isinstance(i[0], str) for i in x):
        return {k: _unhash(v) for k, v in x}
    if isinstance(x, dict):
        return {k: _unhash(v) for k, v in x.items()}
    if isinstance(x, (tuple, list)):
        return [_unhash(v) for v in x]
    return x


def _no_times(bs):
    out = {"running": bs["running"], "steps": {}}
    for s, ws in bs["steps"].items():
        out["steps"][s] = {"queue": [{k: v for k, v in a.items() if k != "first"} for a in ws["queue"]],
                           "ip": [{k: v for k, v in a.items() if k != "first"} for a in ws["ip"]],
                           "coll": ws["coll"], "waiters": ws["waiters"]}
    return out


def replay_model(chk, name, prog, ext_menu=(), max_ext=1, max_cancel=0, max_paths=60, max_len=60, max_resume=0):
    """Dump the state graph of Engine.tla for `prog`, walk edge-covering paths, perform every environment action of a
    path on the REAL engine (the loop performs the internal actions itself) and compare the model's reducer state with
    the live runner state at every quiescence point.  Returns (paths, compared, mismatches)."""
    import re
    from harness import tlaval
    from harness.drivers import engine as en
    d, dev, cfg = mc_module(chk, name, prog, ext_menu, max_ext, max_cancel)
    B = lambda b: "TRUE" if b else "FALSE"
    lines = ["CONSTANTS", "  Cfg <- MC_Cfg", "  Prog <- MC_Prog", "  ExtMenu <- MC_ExtMenu", "  MaxExt = %d" % max_ext,
             "  MaxCancel = %d" % max_cancel, "  TimeoutMs <- MC_TimeoutMs", "  WallEpoch = 99000000",
             "  Dev_MatchDoneWaiters = " + B(dev["match_done_waiters"]), "  Dev_WaitIndexOneBased = " + B(dev["wait_index_one_based"]),
             "  Dev_NoHandlersUnvalidated = " + B(dev["no_handlers_unvalidated"]), "  Dev_ClockMix = " + B(dev["clock_mix"]),
                 "  Dev_RepingResolvedWaiters = " + B(dev.get("reping_resolved", False)),
             "  MaxResume = %d" % max_resume, "  TrackLog = FALSE", "INIT Init", "NEXT Next"]
    (d / ("MC_%s.cfg" % name)).write_text("\n".join(lines) + "\n")
    dump = d / "graph"
    res = tlc.run(d / ("MC_%s.tla" % name), d / ("MC_%s.cfg" % name), workdir=chk.work, deadlock=False, coverage=False,
                  workers=4, dump=dump, timeout=600)
    chk.record_tlc("Engine/replay_" + name, res)
    chk.require_tlc_ok("replay_" + name, res)
    g = tlc.load_dot(str(dump) + ".dot")
    paths = tlc.covering_paths(g, max_len=max_len)
    rng = random.Random(chk.seed)
    if len(paths) > max_paths:
        paths = rng.sample(paths, max_paths)
    env_re = re.compile(r"^(WorkerFinishAt|ExtSend|ExtCancel|Advance|PauseResume)(?:\((.*)\))?$", re.S)
    compared = mism = 0
    first_mismatch = None

    def model_quiet(st):
        return (st["outcome"] != "none") or (
            st["phase"] == "wait" and not any(dict(t)["st"] == "done" for t in st["tasks"])
            and st["pull"]["st"] != "got" and not (st["pull"]["st"] == "waiting" and len(st["mailbox"]) > 0)
            and not any(dict(w)["at"] <= st["now"] for w in st["wake"]))

    def one_path(path):
        nonlocal compared, mism, first_mismatch
        s = en.EngineSystem(prog, observe_c11=False)
        try:
            s.start("s0")
            done_prefix = []
            for (src, dst, label) in path:
                done_prefix.append(label[:50])
                m = env_re.match(label.strip())
                if m:
                    act, arg = m.group(1), m.group(2)
                    if act == "WorkerFinishAt":
                        st_, w_ = tlaval.parse("<<" + arg + ">>")
                        t = [dict(x) for x in g.state(src)["tasks"] if dict(x)["step"] == st_ and dict(x)["wid"] == w_][0]
                        keys = [k for k in s.rig.open_gates() if k[0] == t["step"] and k[1] == t["uid"]]
                        if not keys:
                            break                       # not realisable at this point on the real engine: stop this path
                        # equal-valued events (a producer re-executed after a resume emits its events again): the
                        # invocation in the model's worker slot
                        keys.sort(key=lambda k: 0 if s.rig.wid_by_key.get(k, -1) == w_ else 1)
                        key = keys[0]
                        n = 0
                        while key in s.rig.open_gates() and n < 8:     # a body with several gates finishes in one model step
                            s.apply(["release"] + list(key))
                            n += 1
                    elif act == "ExtSend":
                        mrec = tlaval.parse(arg)
                        s.apply(["send", mrec["ty"], "x%d" % s.ext_sent, mrec["target"], mrec["k"]])
                    elif act == "ExtCancel":
                        s.apply(["cancel"])
                    elif act == "PauseResume":
                        # ctx.to_dict -> JSON -> Context.from_dict -> run(ctx=...); the first run is abandoned
                        s.resume_from(s.snapshot())
                    elif act == "Advance":
                        nt = s.loop.next_timer()
                        if nt is None:
                            break
                        s.apply(["advance", en.ms(nt - s.t0), "x"])
                stt = g.state(dst)
                runner = next(iter(en._RUNNERS.values()), None)
                if runner is None or not model_quiet(stt):
                    continue
                compared += 1
                a = _norm(_no_times(tlaval.to_py(stt["bs"])))
                b = _norm(_no_times(en.p_state(runner.state)))
                real_outcome = (s.outcome or {"kind": "none"})["kind"]
                # runner level: the timer heap (kind of tick, time left) of the model vs the real runner
                if stt["outcome"] == "none" and real_outcome == "none":
                    mw = sorted((_unhash(w)["tick"]["k"], _unhash(w)["at"] - stt["now"]) for w in stt["wake"])
                    now_real = getattr(s, "last_now", None)
                    rw = sorted((en.p_tick(tk)["k"], en.ms(at - now_real)) for (at, _q, tk) in runner.scheduled_wakeups) \
                        if now_real is not None else mw
                    # the real clock value is the one of the last get_now(); compare with a tolerance of the elapsed virtual time
                    if [k for k, _ in mw] != [k for k, _ in rw]:
                        a = {"state": a, "wake": mw}
                        b = {"state": b, "wake": rw}
                if a != b or (stt["outcome"] not in (real_outcome, "error")):
                    mism += 1
                    if first_mismatch is None:
                        first_mismatch = {"path": done_prefix, "model": a, "real": b,
                                          "model_outcome": stt["outcome"], "real_outcome": real_outcome}
                    break
        finally:
            s.close()

    for path in paths:
        # one real engine at a time: the virtual clock patches the time module and the registry of recording runners is
        # global, while the replays of several plans run in threads side by side with the TLC jobs
        with _REAL_ENGINE_LOCK:
            one_path(path)
    if first_mismatch:
        chk.note("spec->code replay drift (%s): %s" % (name, str(first_mismatch)[:600]))
    chk.add(model_paths_replayed=len(paths), model_states_compared=compared, model_replay_mismatches=mism)
    return len(paths), compared, mism
