"""C31 -- timeout and cancellation stop the run cleanly and keep it resumable."""
import random

from harness.checks import _engine as eg
from harness.drivers import engine_traces as et

LEVEL = "model_checking"
RULE = ("programs = fanout/pipeline scenarios with a workflow timeout; schedules = bounded DFS + seeded walks in which the "
        "timeout timer may fire and cancel_run may be issued at any quiescence point; every cancelled execution is "
        "replayed, serialised (ctx.to_dict through JSON), resumed with Context.from_dict and driven to its end; "
        "non-trivial = a timeout or cancel tick was processed while work was in flight")


def nontrivial(tr):
    return any(r["e"] == "pub" and r["p"]["k"] in ("timedout", "cancelled") and any(v > 0 for v in r["live"].values())
               for r in tr)


def key_of(clause, label, prog, tr, l):
    if clause == "resumed_run_did_not_finish":
        # cause feature: when the run was cancelled a retry was waiting out its delay in the runner's timer heap
        last = None
        for r in tr:
            if r["e"] == "tick" and r["run"] == 1 and "wakeups" in r:
                last = r
        if last is not None and any(w[1] == "add" for w in last["wakeups"]):
            return "obs:resumed_run_did_not_finish:delayed_retry_pending_at_cancel"
    return "obs:" + clause


def run(chk):
    items = eg.collect(chk, ["fanout", "outcomes"], allow_cancel=True, timeout_advance=True, p_cancel=0.08, drain=False,
                       paths_q=40, walks_q=10)
    # sub-quiescence schedules: a body finishes, the loop is held up across the timeout deadline, then resumes
    items += eg.collect(chk, ["outcomes"], timeout_advance=True, drain=False, paths_q=25, walks_q=6, batch=True)
    # cancelled while nothing runs or is queued: the run only waits for an event (ctx.wait_for_event) or holds a partly
    # filled collect buffer -- the resumed run must go on from there as well
    items += eg.collect(chk, ["wait", "collect"], allow_cancel=True, p_cancel=0.15, drain=False, paths_q=12, walks_q=4)
    # the deadline falls into a phase in which the run only waits for an event
    items += eg.collect(chk, ["wait_deadline"], allow_cancel=True, timeout_advance=True, p_cancel=0.05, drain=False, paths_q=15, walks_q=5)
    items = [it for it in items if it[0] != "retry policy raises"]
    out = []
    nres = 0
    for (label, prog, ext, tr, sched) in items:
        o = [r for r in tr if r["e"] == "outcome"]
        if o and o[-1]["kind"] == "cancelled" and nres < chk.pick(60, 600):
            tr = et.replay_then_resume(prog, sched, ext, timeout_probe=(nres % 2 == 1))
            nres += 1
        out.append((label, prog, ext, tr, sched))
    chk.add(cancelled_runs_resumed=nres)

    def extra(prog, tr):
        # scenarios whose uninterrupted run ends with a result (no step fails for good)
        ok = not any(o["op"] == "fail" and o.get("until", 0) >= 99 for s in prog["steps"].values() for o in s["body"]) \
            and not any(o["op"] == "junk" for s in prog["steps"].values() for o in s["body"])
        return {"expect_result": ok}

    def keep(r):
        if r["e"] == "pub":
            return r["p"]["k"] in ("state", "timedout", "cancelled")
        return True
    eg.standard_run(chk, "C31", None, {"pub", "step_start", "step_end", "outcome", "quiet", "snapshot", "resumed", "resume_end", "resume_timeout_probe"},
                    nontrivial=nontrivial, items=out, extra=extra, keep=keep, key_of=key_of)
