"""C24 -- handler stores answer queries consistently; the memory store retains the newest completions.

1. TLC checks HandlerStore.tla: (a) for every table contents over the small alphabet and every filter
   combination, the code-shaped query/delete predicates of both stores equal the statement's predicate
   (Inv_QueryExact, Inv_DeleteExact); (b) for every history of upserts / status updates / deletes up to the
   bound, for max_completed in {0,1,(2),None} and both stores, the statement holds on the intended design
   (Dev_QueueCountsDeadEntries = FALSE, Inv_C24_strict) and, on the as-is model, fails only in the known
   shape (Inv_C24_asis); two sanity runs produce TLC's witnesses of the known shapes (dup / stale entries).
2. Covering paths of the dumped history graph are applied to the real MemoryWorkflowStore(max_completed=k)
   and SqliteWorkflowStore (queries interleaved); every table contents enumerated by TLC is built in both real
   stores and queried with every filter combination (delete battery on a subset); witnesses are replayed.
3. TLC judges the recordings with Obs_C24 (verdicts), and validates the histories against TraceHandlerStore
   (conformance; also yields the cause label of a retention failure for the finding key).
"""
from __future__ import annotations

import itertools
import json
import re

from harness import tlc, tracecheck
from harness.core import SPECS, Machinery

LEVEL = "model_checking"
RULE = ("histories = covering paths of TLC's state graph of HandlerStore.tla (upsert, update_handler_status, "
        "delete(filter), bounded depth) per (store, max_completed), with queries interleaved; inputs = every table "
        "contents enumerated by TLC x every filter combination; non-trivial = the history has a terminal update or a "
        "delete/query with >=1 filter (a battery counts once per contents)")

_LAB = re.compile(r'^(\w+)\((.*)\)$')
ALL4 = ["cancelled", "completed", "failed", "running"]


def _args(label):
    m = _LAB.match(label.strip())
    return m.group(1), [a.strip().strip('"') for a in m.group(2).split(",")]


def _prints(res, tag):
    for v in res.prints:
        if isinstance(v, tuple) and len(v) == 2 and v[0] == tag:
            return json.loads(v[1])
    raise Machinery("TLC did not print %s" % tag)


def path_to_ops(labels, menu, qmenu):
    """spec actions -> driver operations, with one query after each (rotating menu / match-everything)."""
    from harness.drivers.handler_store import NOFILTER
    everything = dict(NOFILTER, sts={"given": True, "vals": ALL4})
    ops = []
    for n, lab in enumerate(labels):
        act, a = _args(lab)
        if act == "Upsert":
            ops.append({"op": "upsert", "id": a[0], "wf": a[1], "st": a[2], "hr": "T" if a[3] == "TRUE" else "F", "idle": a[4]})
        elif act == "UpdateStatus":
            ops.append({"op": "update", "id": a[0], "st": a[1], "io": a[2]})
        elif act == "Delete":
            ops.append({"op": "delete", "k": int(a[0]), "f": menu[int(a[0]) - 1]})
        else:
            raise Machinery("unknown action label " + lab)
        ops.append({"op": "query", "f": everything if n % 2 else qmenu[(n // 2) % len(qmenu)]})
    return ops


def _nontrivial(ev):
    from harness.drivers.handler_store import num_given
    for e in ev:
        if e["op"] in ("upsert", "update") and e["st"] in ("completed", "failed", "cancelled"):
            return True
        if e["op"] == "delete" and num_given(e["f"]) > 0:
            return True
    return False


def _tlc(chk, name, cfg, dump=None, expect=None, workers=8):
    res = tlc.run(SPECS / "stores/MC_HandlerStore.tla", SPECS / ("stores/MC_HandlerStore_%s.cfg" % cfg),
                  workdir=chk.work, deadlock=False, dump=dump, workers=workers, extra=("-fp", "1"))
    chk.record_tlc("HandlerStore/" + name, res, count=expect is None)
    if expect:
        if res.error:
            raise Machinery("TLC run %s failed: %s" % (name, res.error))
        if res.violated != expect:
            raise Machinery("sanity run %s: expected a violation of %s, got %s" % (name, expect, res.violated))
        return res
    if res.violated:
        chk.violation("model:%s:%s" % (cfg, res.violated),
                      "the HandlerStore model (%s) violates %s (counterexample in replay)" % (cfg, res.violated),
                      {"cfg": cfg, "trace": res.trace})
        return res
    chk.require_tlc_ok(name, res)
    return res


def run(chk):
    from harness.drivers import event_log as evdrv
    from harness.drivers import handler_store as drv

    tier = "quick" if chk.quick else "thorough"
    # ---- 1. design level
    gdump = chk.work / "g_hist"
    # the dumped graph is produced with one worker: with the BFS-level bound (DepthOK) the set of states explored by
    # parallel workers is not reproducible
    if chk.quick:
        asis = _tlc(chk, "asis", "quick_asis", dump=gdump, workers=1)
    else:
        big = _tlc(chk, "asis", "thorough_asis", workers=16)
        if big.ok and big.zero_actions():
            raise Machinery("vacuity: actions never taken: %s" % big.zero_actions())
        asis = _tlc(chk, "mid_asis", "mid_asis", dump=gdump, workers=1)
    if asis.ok and asis.zero_actions():
        raise Machinery("vacuity: actions never taken: %s" % asis.zero_actions())
    strict = _tlc(chk, "strict", tier + "_strict", workers=chk.pick(1, 16))
    fdump = chk.work / "g_filters"
    # per-row form of the filter semantics (every single-handler contents x every filter combination) ...
    filt = _tlc(chk, "filters_rows", "filters_rows", dump=fdump, workers=8)
    if not chk.quick:
        # ... and the same over all two-handler contents
        _tlc(chk, "filters_contents", "filters_thorough", workers=16)
    kf_stale = _tlc(chk, "kf_stale", "kf_stale", expect="NoStaleFlag", workers=1)
    kf_dup = None
    menu = [drv.norm_filter(f) for f in _prints(asis if asis.prints else strict, "MENU")]
    lists = _prints(asis if asis.prints else strict, "LISTS")
    comp = {k: [{"given": bool(x["given"]), "vals": sorted(x["vals"])} for x in lists[k]]
            for k in ("ids", "runs", "wfs", "sts")}
    for k in comp:
        comp[k].sort(key=lambda x: (x["given"], x["vals"]))
    filters = [{"ids": a, "runs": b, "wfs": c, "sts": d, "idle": e}
               for a, b, c, d, e in itertools.product(comp["ids"], comp["runs"], comp["wfs"], comp["sts"], ["any", "T", "F"])]
    qmenu = [f for f in menu if drv.num_given(f) > 0]

    dbdir, cleanup = evdrv.fast_db_dir(chk.work, "db_handlers")
    try:
        _bind(chk, drv, dbdir, asis, filt, kf_dup, kf_stale, menu, qmenu, filters, gdump, fdump)
    finally:
        cleanup()


def _bind(chk, drv, dbdir, asis, filt, kf_dup, kf_stale, menu, qmenu, filters, gdump, fdump):
    from harness.core import Machinery
    traces = []          # what TLC will judge
    hist_idx = []
    shared = None

    def history(backend, k, ops):
        nonlocal shared
        ev, sh = drv.run_history(backend, k, ops, dbdir=dbdir, shared=shared if backend == "sqlite" else None)
        if backend == "sqlite":
            shared = sh
        return ev

    def add_history(backend, k, ops, origin):
        ev = history(backend, k, ops)
        traces.append({"kind": "history", "backend": backend, "k": k, "ev": ev, "origin": origin})
        hist_idx.append(len(traces) - 1)
        return ev

    g = None
    if asis.ok:
        g = tlc.load_dot(str(gdump) + ".dot")
        g.edges.sort()

    # ---- 2a. TLC's witnesses of the known shapes, replayed on the real memory store
    #      (stale: counterexample of the sanity run; dup: shortest path of the as-is graph to a state flagged so)
    wit_idx = {}
    k = kf_stale.trace[0]["state"]["conf"]["k"]
    ops = [o for o in path_to_ops([s["action"] for s in kf_stale.trace[1:]], menu, qmenu) if o["op"] != "query"]
    add_history("memory", k, ops, "witness_stale")
    wit_idx["stale"] = len(traces) - 1
    if g is not None:
        succ = g.succ()
        par = {i: None for i in g.init}
        order = sorted(g.init)
        target = None
        qi = 0
        while qi < len(order) and target is None:
            sid = order[qi]
            qi += 1
            for (d, lab) in succ.get(sid, ()):
                if d not in par:
                    par[d] = (sid, lab)
                    order.append(d)
                    if g.state(d)["flag"] == "retention:dup":
                        target = d
                        break
        if target is None:
            raise Machinery("the as-is graph has no state flagged retention:dup (sanity)")
        labs, sid = [], target
        while par[sid] is not None:
            labs.append(par[sid][1])
            sid = par[sid][0]
        labs.reverse()
        ops = [o for o in path_to_ops(labs, menu, qmenu) if o["op"] != "query"]
        add_history("memory", g.state(sid)["conf"]["k"], ops, "witness_dup")
        wit_idx["dup"] = len(traces) - 1

    # ---- 2b. histories from the model's state graph
    npaths = 0
    multi = {}
    if g is not None:
        paths = tlc.covering_paths(g, max_len=12)
        limit = chk.pick(100000, 12000)
        if len(paths) > limit:
            step = len(paths) / float(limit)
            paths = [paths[int(i * step)] for i in range(limit)]
        for p in paths:
            conf = g.state(p[0][0])["conf"]
            ops = path_to_ops([e[2] for e in p], menu, qmenu)
            ev = add_history(conf["b"], conf["k"], ops, "graph")
            npaths += 1
            if conf["b"] == "sqlite":
                ev2 = history("memory", -1, ops)
                traces.append({"kind": "pair", "a": ev2, "b": ev})
        for sid in sorted(g.raw):
            st = g.state(sid)
            present = {h: r for h, r in st["rows"].items() if r["st"] != "-"}
            if len(present) >= 2:
                multi[json.dumps(present, sort_keys=True)] = present
    chk.add(histories_from_graph=npaths)

    # ---- 2b'. retention is history-dependent inside the store (its queue is not part of what queries show): covering
    #          every EDGE of the state graph does not cover every HISTORY.  All sequences over the retention alphabet
    #          (upsert / update_handler_status x two handlers x running|completed) up to the bound, on the capped
    #          memory store; the model judges each one (observer + trace validation), it does not have to enumerate them
    nseq = 0
    alpha = [{"op": "upsert", "id": i, "wf": "wa", "st": st, "hr": "T", "idle": "F"} for i in ("h1", "h2") for st in ("running", "completed")] + \
            [{"op": "update", "id": i, "st": st, "io": "keep"} for i in ("h1", "h2") for st in ("running", "completed")]
    everything = dict(drv.NOFILTER, sts={"given": True, "vals": ALL4})
    for (cap, length) in chk.pick([(2, 4), (1, 3)], [(2, 5), (1, 4), (0, 3)]):
        for seq in itertools.product(alpha, repeat=length):
            if sum(1 for o in seq if o["st"] == "completed") < 2 or not any(o["op"] == "update" for o in seq):
                continue          # needs two completions and one status update to differ from what the graph paths cover
            ops = []
            for o in seq:
                ops += [dict(o), {"op": "query", "f": everything}]
            add_history("memory", cap, ops, "retention_sequences")
            nseq += 1
    chk.add(retention_sequences=nseq)

    # ---- 2b''. idle_since is a column that only some writers touch: every sequence of (upsert idle / not idle,
    #          update_handler_status keep / set / clear) on two handlers, each followed by the is_idle=True and
    #          is_idle=False queries, then a delete of the idle ones; both stores (and the pair comparison)
    nidle = 0
    ialpha = [{"op": "upsert", "id": i, "wf": "wa", "st": "running", "hr": "T", "idle": v} for i in ("h1", "h2") for v in ("T", "F")] + \
             [{"op": "update", "id": i, "st": "running", "io": io} for i in ("h1", "h2") for io in ("set", "clear", "keep")]
    qT, qF = dict(drv.NOFILTER, idle="T"), dict(drv.NOFILTER, idle="F")
    for seq in itertools.product(ialpha, repeat=chk.pick(3, 4)):
        if seq[0]["op"] != "upsert" or not any(o["op"] == "update" and o["io"] != "keep" for o in seq) \
                and len({(o["id"], o["idle"]) for o in seq if o["op"] == "upsert"}) < 2:
            continue
        ops = []
        for o in seq:
            ops += [dict(o), {"op": "query", "f": qT}, {"op": "query", "f": qF}]
        ops += [{"op": "delete", "k": 6, "f": menu[5]}, {"op": "query", "f": everything}]       # Menu[6]: is_idle=True
        evs = add_history("sqlite", -1, ops, "idle_sequences")
        evm = add_history("memory", -1, ops, "idle_sequences")
        traces.append({"kind": "pair", "a": evm, "b": evs})
        nidle += 1
    chk.add(idle_sequences=nidle)

    # ---- 2c. contents x every filter combination: every single-handler contents enumerated by TLC, plus every
    #          multi-handler contents that occurs in the history graph; both stores
    ncont = 0
    contents = []
    if filt.ok:
        gf = tlc.load_dot(str(fdump) + ".dot")
        seen = set()
        for sid in sorted(gf.raw):
            st = gf.state(sid)
            present = {h: r for h, r in st["rows"].items() if r["st"] != "-"}
            key = (st["conf"]["b"], json.dumps(present, sort_keys=True))
            if key not in seen:
                seen.add(key)
                contents.append((st["conf"]["b"], present))
    for key in sorted(multi):
        for b in ("memory", "sqlite"):
            contents.append((b, multi[key]))
    for n, (backend, present) in enumerate(contents):
        build = [{"op": "upsert", "id": hid, "wf": r["wf"], "st": r["st"],
                  "hr": "F" if r["run"] == "none" else "T", "idle": r["idle"]} for hid, r in sorted(present.items())]
        fl = filters if len(present) < 2 else filters[n % 3::3]       # multi-row contents: a third of the filters each
        s = drv.HandlerSystem(backend, -1, dbdir=dbdir, shared=shared if backend == "sqlite" else None)
        try:
            if backend == "sqlite":
                shared = s.shared()
            for o in build:
                s.apply(o)
            rows = s.rows()
            resq = [s.apply({"op": "query", "f": f})["ret_ids"] for f in fl]
            deld = []
            if n % chk.pick(8, 2) == 0:
                for f in fl:
                    e = s.apply({"op": "delete", "f": f})
                    deld.append({"n": e["ret_n"], "left": [r["id"] for r in e["rows"]]})
                    if e["ret_n"] != 0 or len(e["rows"]) != len(rows):
                        for o in build:                 # restore the contents
                            s.apply(o)
        finally:
            s.close()
        traces.append({"kind": "battery", "backend": backend, "rows": rows, "fl": fl,
                       "resq": resq, "deld": deld})
        ncont += 1
    chk.add(contents_with_filter_battery=ncont, filter_combinations=len(filters))

    # ---- 3. TLC judges
    total = nontriv = matched = 0
    fails = {}           # global trace index -> [(l, clause)]
    verd = {}
    CH = 8000
    for off in range(0, len(traces), CH):
        chunk = traces[off:off + CH]
        v, res = tracecheck.observe(chk, "obs/Obs_C24.tla", "obs/Obs_C24.cfg", {"traces": chunk},
                                    name="obs_%d" % off, workers=8)
        for i in range(1, len(chunk) + 1):
            verd[off + i - 1] = v[i]
        for p in res.prints:
            if isinstance(p, tuple) and len(p) == 4 and p[0] == "FAIL":
                fails.setdefault(off + p[1] - 1, set()).add((p[2], p[3]))
    # conformance (+ cause labels) for the histories
    hists = [traces[i] for i in hist_idx]
    dev = any(verd[i][0] == "retention" for i in wit_idx.values())
    chk.add(deviation_Dev_QueueCountsDeadEntries_exhibited=bool(dev))
    reached, causes = {}, {}
    ids = sorted({r["id"] for t in hists for e in t["ev"] for r in e["rows"]} | {"h1", "h2", "h3"})
    for off in range(0, len(hists), CH):
        chunk = hists[off:off + CH]
        r, res = tracecheck.conform(chk, "stores/TraceHandlerStore.tla", "stores/TraceHandlerStore.cfg",
                                    {"ids": ids, "dev": bool(dev), "traces": chunk}, name="trace_%d" % off, workers=8)
        if res.violated:
            chk.note("conformance: a model invariant fails on a real trace: %s" % res.violated)
        for i in range(1, len(chunk) + 1):
            reached[hist_idx[off + i - 1]] = r.get(i, 0)
        for p in res.prints:
            if isinstance(p, tuple) and len(p) == 4 and p[0] == "KF":
                causes[(hist_idx[off + p[1] - 1], p[2])] = p[3]

    for gi, t in enumerate(traces):
        total += 1
        clause, l = verd[gi][0], verd[gi][1]
        if t["kind"] == "history":
            if reached.get(gi, 0) == len(t["ev"]):
                matched += 1
            elif len(chk.notes) < 8:
                e = t["ev"][reached.get(gi, 0)]
                chk.note("conformance drift (%s,k=%s): history matched %d/%d events; first unmatched %s" % (
                    t["backend"], t["k"], reached.get(gi, 0), len(t["ev"]),
                    {k: e[k] for k in ("op", "id", "wf", "st", "io", "k", "ret_ids", "ret_n", "rows", "tq")}))
            if _nontrivial(t["ev"]):
                nontriv += 1
            for (fl, fc) in sorted(fails.get(gi, ())):
                if fc in ("retention", "non_terminal_kept"):
                    cause = causes.get((gi, fl)) if reached.get(gi, 0) >= fl else None
                    key = "obs:%s:%s" % (fc, (cause or "retention:unexplained").split(":", 1)[1])
                else:
                    key = "obs:%s:%s" % (fc, t["backend"])
                n_ev = len(t["ev"])
                fa = max(1, min(fl, n_ev))          # a clause may be reported for the position after the last event
                ops = [{k: e[k] for k in ("op", "id", "wf", "st", "hr", "idle", "io", "f")} for e in t["ev"][:fl]]
                chk.violation(key, "%s store (max_completed=%s): step %d of the history violates '%s'" % (
                    t["backend"], "None" if t["k"] < 0 else t["k"], fl, fc),
                    {"backend": t["backend"], "max_completed": t["k"], "history": ops,
                     "rows_before": t["ev"][fa - 2]["rows"] if fa > 1 else [], "rows_after": t["ev"][fa - 1]["rows"],
                     "returned": {"ids": t["ev"][fa - 1]["ret_ids"], "n": t["ev"][fa - 1]["ret_n"]}})
        elif t["kind"] == "pair":
            if clause != "ok":
                chk.violation("obs:backends_agree", "memory (no cap) and sqlite differ at step %s of the same history" % l,
                              {"memory": t["a"][: (l or 1)], "sqlite": t["b"][: (l or 1)]})
        else:
            nontriv += 1
            if clause != "ok":
                f = t["fl"][l - 1] if l else None
                chk.violation("obs:%s:%s:battery" % (clause, t["backend"]),
                              "%s store: filter #%s gives a wrong %s result on contents %s" % (t["backend"], l, clause, t["rows"]),
                              {"backend": t["backend"], "rows": t["rows"], "filter": f,
                               "query_returned": t["resq"][l - 1] if l else None})
    if hists:
        mid = hists[len(hists) // 2]
        chk.sample({"backend": mid["backend"], "max_completed": mid["k"],
                    "history": [(e["op"], e["id"], e["st"], e["k"]) for e in mid["ev"] if e["op"] != "query"],
                    "final_rows": mid["ev"][-1]["rows"]})
    chk.add(evaluations=total, distinct_nontrivial=nontriv, traces_validated_against_impl=matched)
    chk.exhaustive = chk.quick
    chk.assumptions += [
        "alphabet: 2-3 handler ids, 2 workflow names, 3-4 statuses, run_id = 'r_'+handler_id or None (unique per handler), "
        "idle_since set/unset; timestamps, result and error fields are not part of the statement and not compared",
        "table contents are read directly (memory: store.handlers; sqlite: SELECT over a second connection)",
        "a delete without any filter is outside the statement and not judged (memory deletes everything, sqlite nothing)",
        "'most recently completed' accepted under both readings (latest terminal update / first of the completed streak)",
        "sqlite files live on tmpfs when /dev/shm is available",
    ]
