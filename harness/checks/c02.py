"""C02 -- every emitted event reaches each accepting step exactly once."""
from harness.checks import _engine as eg

LEVEL = "model_checking"
RULE = ("programs = routing scenarios (two steps accepting the same type, targeted ctx.send_event with a second accepting step, "
        "external sends of accepted / unaccepted types and to a named step, InputRequired returned by a step, a waiter of "
        "the sent type) + fanout; schedules = bounded DFS + seeded walks, drained at the end; non-trivial = an event "
        "had >= 2 accepting steps, a target, or no acceptor")


def emits(tr):
    """Normalise the three ways an event enters a run into one record kind (projection only)."""
    out = []
    took = set()
    for r in tr:
        if r["e"] == "tick" and "state" in r:
            # an event that resolved a waiter (the reducer state says which) is taken, whether or not its step gets to
            # return from wait_for_event before the run ends
            for st_, ws in r["state"]["steps"].items():
                for w in ws["waiters"]:
                    if w.get("resolved") and (st_, w["resolved"]) not in took:
                        took.add((st_, w["resolved"]))
                        out.append({"e": "wait_took", "step": st_, "uid": w["resolved"], "seq": r["seq"], "run": r["run"], "t": r["t"]})
        if r["e"] == "send_int" and r["tick"]["k"] == "add":
            out.append({"e": "emit", "uid": r["tick"]["uid"], "ty": r["tick"]["ty"], "target": r["tick"]["target"],
                        "seq": r["seq"], "run": r["run"], "t": r["t"], "ext": False})
        elif r["e"] == "send_ext" and r.get("ok"):
            out.append({"e": "emit", "uid": r["uid"], "ty": r["ty"], "target": r["target"], "seq": r["seq"],
                        "run": r["run"], "t": r["t"], "ext": True})
        elif r["e"] == "step_end" and r["how"].startswith("ret:"):
            out.append({"e": "emit", "uid": "%s>%s" % (r["uid"], r["step"]), "ty": r["how"][4:], "target": "*",
                        "seq": r["seq"], "run": r["run"], "t": r["t"], "ext": False})
        elif r["e"] == "cmd" and r["cmd"][0] == "start" and r["run"] == 1:      # (a resumed run gets no StartEvent)
            out.append({"e": "emit", "uid": r["cmd"][1], "ty": "Start", "target": "*", "seq": r["seq"], "run": r["run"], "ext": False,
                        "t": r["t"]})
        elif r["e"] in ("step_start", "wait_ret", "drained") or (r["e"] == "pub" and r["p"]["k"] == "unhandled"):
            out.append(r)
        if r["e"] == "step_end":
            out.append({"e": "step_end", "step": r["step"], "uid": r["uid"], "failed": r["how"].startswith("raise:"),
                        "cancelled": r["how"] == "cancelled", "seq": r["seq"], "run": r["run"], "t": r["t"]})
    return out


def nontrivial(tr):
    return any((r["e"] == "pub" and r["p"]["k"] == "unhandled") or
               (r["e"] == "send_int" and r["tick"].get("target", "*") != "*") or
               (r["e"] == "send_ext") for r in tr)


def extra(prog, tr):
    return {"plain": {s: not any(o["op"] in ("collect", "wait") for o in sc["body"]) for s, sc in prog["steps"].items()}}


def resumed_items(chk):
    """Serialise/resume points: the routing programs and a waiter with a requirement that shares its input type with a
    plain step."""
    from harness.programs import scenarios as sc
    return eg.collect_resumed(chk, [("waiter_shared_input", sc.waiter_shared_input(), [("Resp1", None)]),
                                    ("overlap(1,2,2)", sc.overlap(1, 2, 2), []),
                                    ("targeted(2)", sc.targeted(2), [])])


def run(chk):
    items = eg.collect(chk, ["routing", "fanout"]) + resumed_items(chk)
    # equal-valued events waiting in the queue of a saturated step (every one of them is an event of its own)
    items += eg.collect(chk, ["equal_events"], paths_q=6, walks_q=2, paths_t=40, walks_t=10)
    # waiters nobody else accepts the answer of: a second answer while the woken step is still running is an orphan
    items += eg.collect(chk, ["wait"], paths_q=12, walks_q=3, paths_t=80, walks_t=20, max_ext=3)
    # an input queued behind an invocation that gives its slot up without a result (suspends in a wait / fails into a retry)
    items += eg.collect(chk, ["wait_queue"], paths_q=12, walks_q=3, paths_t=60, walks_t=15, max_ext=1)
    items2 = [(l, p, e, emits(tr), s) for (l, p, e, tr, s) in items]
    eg.conform_reducer(chk, items)
    eg.standard_run(chk, "C02", None, {"emit", "step_start", "step_end", "wait_ret", "wait_took", "drained", "pub"}, extra=extra,
                    nontrivial=nontrivial, items=items2, conform=False)
