"""C20 -- concurrent state updates are never lost (final state = some serial execution).

1. TLC checks StateStoreConc.tla exhaustively: every interleaving (at await points: lock acquisition,
   the await inside edit_state blocks) of every program of the instance, on the in-memory store, the
   SQLite store as designed and the SQLite store as coded (set_state/clear take no lock).  The strict
   property must hold on the first two; on the as-coded model it must hold except for the known
   failure shape (an unlocked set_state/clear completing while an edit_state block is open), and TLC
   must find the counterexample on the witness programs.
2. Every program is executed on the real InMemoryStateStore and SqliteStateStore under the virtual
   loop, tasks gated before every operation and inside edit_state blocks; the driver explores ALL
   command orders at quiescence points (DFS, pruned on the projected state); schedules projected from
   TLC's state graph (witness instance) are added.
3. TLC judges every recorded execution with Obs_C20.tla (verdict) and validates it against
   TraceStateStoreConc.tla (conformance to the as-coded model).
"""
from __future__ import annotations

import json
import re

from harness import tlc, tracecheck
from harness.core import SPECS, Machinery

LEVEL = "model_checking"
RULE = ("schedules = all orders of the driver commands go(p) / resume(p) (singletons and ordered pairs per "
        "quiescence point) for every program of the instance (2 processes, <= 2 operations each; 3 processes: open edit "
        "block + queued whole-state replacement + queued second edit, in full; thorough adds sampled 3-process programs; over set / "
        "set_state / parent set_state / clear / edit_state{read; await; write}, at least one edit_state), "
        "explored exhaustively on the real stores, plus schedules projected from TLC's state graph; "
        "non-trivial = some operation was issued or completed while another task was inside an edit_state "
        "block or waiting for the lock (>= 2 writers overlapped in time)")

SYSTEMS = [("memory", "dict"), ("sqlite", "dict"), ("memory", "typed"), ("sqlite", "typed")]
_LAB = re.compile(r'^(\w+)\("?(\w+)"?\)$')


def _model(chk, cfg, *, expect_violation=None, dump=None, extra=(), workers=4, coverage=True):
    res = tlc.run(SPECS / "stores/MC_StateStoreConc.tla", SPECS / ("stores/MC_StateStoreConc_%s.cfg" % cfg),
                  workdir=chk.work, deadlock=False, dump=dump, extra=extra, workers=workers, coverage=coverage)
    chk.record_tlc("StateStoreConc/" + cfg, res, count=expect_violation is None)
    if res.error:
        chk.require_tlc_ok(cfg, res)
    if expect_violation is None:
        if res.violated:
            chk.violation("model:" + res.violated + ":" + cfg,
                          "the state-store concurrency model (%s) violates %s (counterexample in replay)" % (cfg, res.violated),
                          {"cfg": cfg, "trace": res.trace})
        elif coverage:
            z = res.zero_actions(ignore=("Next",))
            if z:
                raise Machinery("vacuity: actions never taken in %s: %s" % (cfg, z))
    return res


def _programs(res):
    progs = {}
    for v in res.prints:
        if isinstance(v, tuple) and len(v) == 3 and v[0] == "PROG":
            pr = json.loads(v[2])
            progs.setdefault(v[1], {})[json.dumps(pr, sort_keys=True)] = pr
    return {k: [d[s] for s in sorted(d)] for k, d in progs.items()}


def _graph_schedules(g, limit):
    """Project covering paths of the model's state graph onto driver schedules, per (system, program)."""
    out = []
    for path in tlc.covering_paths(g, max_len=40):
        if not path:
            continue
        st0 = g.state(path[0][0])
        sched, batch = [], []
        for (src, dst, label) in path:
            m = _LAB.match(label)
            if m and m.group(1) in ("Go", "Resume"):
                batch.append(["go" if m.group(1) == "Go" else "resume", m.group(2)])
            else:
                if batch:
                    sched.append(batch)
                    batch = []
        if batch:
            sched.append(batch)
        if sched:
            prog = {p: [dict(o) for o in ops] for p, ops in st0["prog"].items()}
            out.append((st0["sys"]["be"], st0["sys"]["kind"], prog, sched))
        if len(out) >= limit:
            break
    return out


def _nontrivial(tr):
    prev = {p: "idle" for p in tr["procs"]}
    for e in tr["events"]:
        busy = {p for p, s in prev.items() if s in ("inblock", "lockwait")}
        for c in e["cmds"]:
            if c[0] == "go" and (busy - {c[1]}):
                return True
        if sum(1 for s in e["post"]["pc"].values() if s in ("inblock", "lockwait")) >= 2:
            return True
        prev = e["post"]["pc"]
    return False


def run(chk):
    from harness.drivers import state_store as base
    from harness.drivers import state_store_conc as drv

    from concurrent.futures import ThreadPoolExecutor
    pool = ThreadPoolExecutor(max_workers=2)
    # ---- 1. design level: exhaustive TLC
    # the strict property on the as-coded model must FAIL (sqlite): counterexample + state graph
    fut_w = pool.submit(_model, chk, "witness", expect_violation="Inv_C20", dump=chk.work / "g_witness",
                        extra=("-continue", "-fp", "0"), workers=1, coverage=False)
    res_q = _model(chk, "quick")
    progs2 = _programs(res_q)
    progs3 = {}
    if not chk.quick:
        res_2 = _model(chk, "two", coverage=False)
        _model(chk, "design_two", coverage=False)
        res_f = _model(chk, "full2", coverage=False)
        for r in (res_2, res_f):
            for k, v in _programs(r).items():
                known = {json.dumps(p, sort_keys=True) for p in progs2.get(k, [])}
                progs2[k] = progs2.get(k, []) + [p for p in v if json.dumps(p, sort_keys=True) not in known]
        res_t = _model(chk, "three", workers=8, coverage=False)
        progs3 = _programs(res_t)
    # three processes, every tier: edit block / whole-state replacement / second edit block, all explored in full
    progs3q = _programs(_model(chk, "three_q", coverage=False))
    res_w = fut_w.result()
    chk.add(model_ascoded_counterexample=bool(res_w.violated == "Inv_C20"))
    if res_w.violated != "Inv_C20":
        chk.note("the as-coded model no longer violates Inv_C20 on the witness programs (%s)" % res_w.violated)
    g = tlc.load_dot(str(chk.work / "g_witness") + ".dot")
    # canonical order (state ids are fingerprints; the dump order is not fixed): rank states by their text
    rank = {sid: i for i, sid in enumerate(sorted(g.raw, key=lambda x: g.raw[x]))}
    g.raw = {rank[k]: v for k, v in g.raw.items()}
    g.states = {}
    g.edges = sorted((rank[a], rank[b], lab) for a, b, lab in g.edges)
    g.init = sorted(rank[i] for i in g.init)

    # ---- 2. the real stores
    env = base.SqliteEnv(chk.work / "db")
    traces = {2: [], 3: []}
    drift = []
    n_impl = n_model = 0
    try:
        base2 = {k: {json.dumps(p, sort_keys=True) for p in v} for k, v in _programs(res_q).items()}
        two = {k: {json.dumps(p, sort_keys=True) for p in v} for k, v in (_programs(res_2).items() if not chk.quick else [])}
        for be, kind in SYSTEMS:
            e = env if be == "sqlite" else None
            for i, pr in enumerate(progs2.get(kind, [])):
                sig = json.dumps(pr, sort_keys=True)
                if sig in base2.get(kind, ()):
                    # quick instance: singleton commands for every program, ordered pairs for every 10th one
                    mb = 1 if (chk.quick and i % 10) else 2
                elif sig in two.get(kind, ()):
                    mb = 2
                else:
                    # wide alphabet (thorough): singleton commands; every 2nd program (sqlite: every 6th)
                    if i % (6 if be == "sqlite" else 2):
                        continue
                    mb = 1
                traces[2] += drv.explore(be, kind, pr, e, max_batch=mb)
            for pr in progs3q.get(kind, []):
                traces[3] += drv.explore(be, kind, pr, e, max_batch=1)
            for i, pr in enumerate(progs3.get(kind, [])):
                if i % (15 if be == "sqlite" else 5):
                    continue
                traces[3] += drv.explore(be, kind, pr, e, max_batch=1)
        n_impl = len(traces[2]) + len(traces[3])
        for be, kind, prog, sched in _graph_schedules(g, chk.pick(300, 3000)):
            d = []
            traces[2].append(drv.run_schedule(be, kind, prog, sched, env if be == "sqlite" else None, d))
            drift += d
            n_model += 1
    finally:
        env.close()
    chk.add(impl_explored=n_impl, model_projected=n_model, model_schedule_commands_not_enabled=len(drift))

    # ---- 3. TLC judges the recorded executions (two batches at a time)
    total = nontriv = matched = 0
    seen = set()

    def judge(job):
        np_, off, part, procs = job
        batch = {"procs": procs, "dev": True, "traces": part}
        verdicts, _ = tracecheck.observe(chk, "obs/Obs_C20.tla", "obs/Obs_C20.cfg", batch,
                                         name="obs%d_%d" % (np_, off), workers=2)
        reached, res = tracecheck.conform(chk, "stores/TraceStateStoreConc.tla", "stores/TraceStateStoreConc.cfg",
                                          batch, name="trace%d_%d" % (np_, off), workers=3)
        unmatched = [i for i, tr in enumerate(part, 1) if reached.get(i, 0) != len(tr["events"])]
        reached_design = {}
        if unmatched and not res.violated:
            # 2.5: which variant the code follows is decided by replaying: try the design variant
            sub = {"procs": procs, "dev": False, "traces": [part[i - 1] for i in unmatched]}
            rd, res2 = tracecheck.conform(chk, "stores/TraceStateStoreConc.tla", "stores/TraceStateStoreConc.cfg",
                                          sub, name="trace_design%d_%d" % (np_, off), workers=3)
            for j, i in enumerate(unmatched, 1):
                if not res2.violated and rd.get(j, 0) == len(part[i - 1]["events"]):
                    reached_design[i] = True
        return verdicts, reached, res, reached_design

    jobs = []
    for np_, trs in traces.items():
        if not trs:
            continue
        errs = [t["errors"] for t in trs if t["errors"]]
        if errs:
            raise Machinery("an operation of a C20 program raised: %s" % errs[0])
        B = chk.pick(6000, 5000)
        jobs += [(np_, off, trs[off:off + B], trs[0]["procs"]) for off in range(0, len(trs), B)]
    for (np_, off, part, procs), (verdicts, reached, res, reached_design) in zip(jobs, pool.map(judge, jobs)):
            if reached_design:
                chk.note("%d executions follow the design model (Dev_SqliteSetStateNoLock = FALSE), not the "
                         "as-coded one" % len(reached_design))
                chk.add(matched_by_design_model_only=len(reached_design))
            if res.violated:
                chk.note("conformance: model invariant %s fails on an inferred step of a real trace" % res.violated)
            for i, tr in enumerate(part, 1):
                total += 1
                clause, l, cause = verdicts[i][0], verdicts[i][1], (verdicts[i][2] if len(verdicts[i]) > 2 else "")
                sched = [e["cmds"] for e in tr["events"]]
                if clause == "incomplete":
                    chk.note("execution did not complete (%s/%s): %s %s" % (tr["backend"], tr["kind"],
                                                                           json.dumps(tr["prog"]), sched)) if len(chk.notes) < 10 else None
                elif clause != "ok":
                    chk.violation("obs:%s:%s:%s" % (clause, tr["backend"], cause),
                                  "%s store (%s state): clause '%s' fails (%s); final state %s" % (
                                      tr["backend"], tr["kind"], clause, cause, json.dumps(tr["final"])),
                                  {"backend": tr["backend"], "kind": tr["kind"], "prog": tr["prog"], "schedule": sched,
                                   "ops": tr["ops"], "final": tr["final"], "final_gets": tr["final_gets"]})
                if reached.get(i, 0) == len(tr["events"]) or reached_design.get(i):
                    matched += 1
                elif not res.violated and len(chk.notes) < 10:
                    k = reached.get(i, 0)
                    chk.note("conformance drift (%s/%s): matched %d/%d events of %s %s" % (
                        tr["backend"], tr["kind"], k, len(tr["events"]), json.dumps(tr["prog"]), sched))
                sig = (tr["backend"], tr["kind"], json.dumps(tr["prog"], sort_keys=True), repr(sched))
                if sig not in seen and _nontrivial(tr):
                    seen.add(sig)
                    nontriv += 1
    for np_, trs in traces.items():
        if not trs:
            continue
        mid = trs[len(trs) // 2]
        chk.sample({"backend": mid["backend"], "kind": mid["kind"], "prog": mid["prog"],
                    "schedule": [e["cmds"] for e in mid["events"]], "final": mid["final"]})
    chk.add(evaluations=total, distinct_nontrivial=nontriv, traces_validated_against_impl=matched)
    chk.exhaustive = True      # every program of the quick instance, every command order at quiescence points
    chk.assumptions += [
        "thorough tier adds the wide-alphabet and three-process instances: TLC checks them exhaustively, the real "
        "stores run every 2nd-15th program of those instances (all singleton command orders of each); the strict "
        "property on the three-process design systems is implied by the carved-out run (kf is only ever set when "
        "Dev_SqliteSetStateNoLock is TRUE)",
        "CPython asyncio.Lock internals (_locked/_waiters) and the stores' private state (_state / the database "
        "row) are read for the conformance projection only; verdicts use harness-owned sequence numbers and "
        "store contents read through get_state()",
        "virtual loop runs ready callbacks in asyncio's own FIFO order; interleavings are at await points only",
        "SQLite typed store: the row is created (get_state) before the tasks start, because set_state(parent) "
        "on a missing row is C19's finding; PRAGMA synchronous=OFF on the store's connections",
        "serial executions = every order of all operations (the statement does not ask for program order)",
    ]
